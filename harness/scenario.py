"""Abstract scenarios (mirror of coq/theories/Model/Schema.v): generator of conformant scenarios,
single-fault mutators, renderer to JSON documents, printer to Coq terms.

A scenario is a dict:
  parties:     [{id, name}]
  otypes:      [{id, name, attrs: [{name, kind: ('F', ty) | ('E', ref) | ('C', ref)}]}]
  promises:    [{id, name, type: ref, ctx: ref|None}]
  actions:     [{id, name, party: ref, promise: ref, ctx: ref|None, dep: ref|None, op: {...}, milestones: [int]}]
  checkpoints: [{id, alias, gate: str|None, deps: [dep], ctx: ref|None}]
  groups:      [{id, name, ctx: ref|None, dep: ref|None, src: ('P', ref, path) | ('V', g, path), var: int}]
ref = (kind, id) with kind in party/type/promise/action/checkpoint/group
dep = ('cmp', operand, op, operand) | ('ref', ref)
operand = ('act', ref, path) | ('var', g, path) | ('lit', shape, tag)
op = {'incl': ('include'|'exclude', list|None), 'defaults': [(attr, shape)], 'edges': [(attr, ref)], 'appends': (ref, path)|None}
"""
import hashlib, copy, random, json

KINDS = ["party", "type", "promise", "action", "checkpoint", "group"]
COQ_KIND = {"party": "RParty", "type": "RType", "promise": "RPromise", "action": "RAction",
            "checkpoint": "RCheckpoint", "group": "RGroup"}
JSON_KIND = {"party": "party", "type": "object_type", "promise": "object_promise", "action": "action",
             "checkpoint": "checkpoint", "group": "thread_group"}
FIELD_TYPES = ["STRING", "NUMERIC", "BOOLEAN", "STRING_LIST", "NUMERIC_LIST", "BOOLEAN_LIST"]
GATES = ["AND", "OR", "XOR", "NAND", "NOR"]
OPS = ["EQUALS", "DOES_NOT_EQUAL", "GREATER_THAN", "LESS_THAN", "GREATER_THAN_OR_EQUAL_TO", "LESS_THAN_OR_EQUAL_TO",
       "ONE_OF", "NONE_OF", "CONTAINS", "DOES_NOT_CONTAIN", "CONTAINS_ANY_OF", "CONTAINS_NONE_OF", "IS_SUBSET_OF",
       "IS_SUPERSET_OF"]
MILESTONES = ["REAL", "CLEAR_OWNERSHIP", "PERMANENT", "ADDITIONAL", "VERIFIABLE"]
SHAPE_TY = {"SNull": "TNULL", "SStr": "STRING", "SInt": "NUMERIC", "SFloat": "NUMERIC", "SBool": "BOOLEAN",
            "SEmpty": "TLIST", "SStrs": "STRING_LIST", "SNums": "NUMERIC_LIST", "SBools": "BOOLEAN_LIST"}
EQ, ORD = OPS[0:2], OPS[2:6]
MEM, CON, SET = OPS[6:8], OPS[8:10], OPS[10:14]


def lit_value(shape, tag):
    return {"SNull": None, "SStr": "s%d" % tag, "SInt": tag, "SFloat": tag + 0.5, "SBool": tag % 2 == 0,
            "SEmpty": [], "SStrs": ["s%d" % tag, "t"], "SNums": [tag, 1.5], "SBools": [tag % 2 == 0, False],
            "SMixed": ["a", 1], "SNulls": [None], "SNested": [[1]], "SObj": {"a": 1}}[shape]


# ----------------------------------------------------------------------------------------------- python mirror
# Used ONLY to steer generation towards conformant scenarios; the oracle is the Coq model.
def py_cmp(l, o, r):
    if l == "TNONE" or r == "TNONE":
        return False
    if l == "TNULL" or r == "TNULL":
        return True
    if l == "TLIST" and r.endswith("_LIST"):
        l = r
    if r == "TLIST" and l.endswith("_LIST"):
        r = l
    base = {"STRING", "NUMERIC", "BOOLEAN", "OBJECT"}
    if l in ("TLIST",) or r in ("TLIST",):
        return False
    if o in EQ:
        return l == r
    if o in ORD:
        return l == r == "NUMERIC"
    if o in MEM:
        return l in base and r == l + "_LIST"
    if o in CON:
        return r in base and l == r + "_LIST"
    return l == r and l.endswith("_LIST")


CONFUSABLE = [0, 1, 2, 3, 10, 11, 12, 13, 20, 21, 23, 30, 31, 32, 100, 101, 102, 110, 111, 112, 120, 121, 123, 201, 210, 211]


def sample_ids(rng, n, limit=60):
    """n distinct ids < limit-ish; half of the time drawn from numbers whose decimal spellings contain one another
    (1 / 10 / 12 / 21 / 112 ...): string-level handling of ids (prefix / substring tests, dotted scopes) only goes
    wrong on such ids."""
    pool = CONFUSABLE if rng.random() < 0.5 else list(range(limit))
    if n > len(pool):
        pool = sorted(set(pool) | set(range(limit)))
    return rng.sample(pool, n)


class Builder:
    def __init__(self, rng, n_actions=6, threads=False):
        self.rng = rng
        self.n = n_actions
        self.threads = threads
        self.tag = 0
        self.s = {"parties": [], "otypes": [], "promises": [], "actions": [], "checkpoints": [], "groups": []}

    def fresh(self):
        self.tag += 1
        return self.tag

    # ---- object types
    def make_types(self):
        rng = self.rng
        nt = rng.randint(1, 3)
        ids = sample_ids(rng, nt, 30)
        for k, tid in enumerate(ids):
            attrs = []
            names = rng.sample(range(0, 12), rng.randint(3, 8))
            for j, nm in enumerate(names):
                r = rng.random()
                if j < 2 or r < 0.55:
                    kind = ("F", FIELD_TYPES[(j if j < 6 and rng.random() < 0.7 else rng.randrange(6)) % 6])
                elif r < 0.8:
                    kind = ("E", ("type", rng.choice(ids)))
                else:
                    kind = ("C", ("type", rng.choice(ids)))
                attrs.append({"name": nm, "kind": kind})
            self.s["otypes"].append({"id": tid, "name": 100 + tid, "attrs": attrs})

    def otype(self, tid):
        return next(t for t in self.s["otypes"] if t["id"] == tid)

    def paths_from(self, tid, max_hops=2):
        """All (path, ty, objtype) reachable from type tid without nesting lists; ty in the ty vocabulary."""
        out = []

        def rec(t, path, is_list, hops):
            for a in self.otype(t)["attrs"]:
                k = a["kind"]
                if k[0] == "F":
                    lst = k[1].endswith("_LIST")
                    if lst and is_list:
                        continue
                    base = k[1].split("_")[0]
                    out.append((path + [a["name"]], base + "_LIST" if (lst or is_list) else base, None))
                elif k[0] == "E":
                    out.append((path + [a["name"]], "OBJECT_LIST" if is_list else "OBJECT", k[1][1]))
                    if hops < max_hops:
                        rec(k[1][1], path + [a["name"]], is_list, hops + 1)
                else:
                    if is_list:
                        continue
                    out.append((path + [a["name"]], "OBJECT_LIST", k[1][1]))
                    if hops < max_hops:
                        rec(k[1][1], path + [a["name"]], True, hops + 1)
        rec(tid, [], False, 0)
        return out

    # ---- comparisons
    def literal_for(self, ty, op_family=None):
        """Pick (operator, right operand literal) making `ty op lit` comparable."""
        rng = self.rng
        choices = []
        base = {"STRING": "SStr", "NUMERIC": rng.choice(["SInt", "SFloat"]), "BOOLEAN": "SBool"}
        lists = {"STRING_LIST": "SStrs", "NUMERIC_LIST": "SNums", "BOOLEAN_LIST": "SBools"}
        if ty in base:
            choices += [(o, base[ty]) for o in EQ]
            if ty == "NUMERIC":
                choices += [(o, base[ty]) for o in ORD]
            choices += [(o, lists[ty + "_LIST"]) for o in MEM]
        elif ty in lists:
            choices += [(o, lists[ty]) for o in EQ + SET]
            choices += [(o, "SEmpty") for o in EQ + SET]
            choices += [(o, base[ty[:-5]]) for o in CON]
        choices += [(o, "SNull") for o in rng.sample(OPS, 2)]
        return rng.choice(choices)

    def make_cmp(self, dep_action, other_action=None):
        """A comparison mentioning dep_action (and possibly other_action), well typed."""
        rng = self.rng
        pr = self.promise_of_action(dep_action)
        paths = self.paths_from(pr["type"][1])
        # over-sample non-trivial paths
        paths = sorted(paths, key=lambda p: (len(p[0]), p[0]))
        path, ty, _ = rng.choice(paths) if rng.random() < 0.8 else ([], "OBJECT", pr["type"][1])
        left = ("act", ("action", dep_action), list(path))
        if other_action is not None:
            pr2 = self.promise_of_action(other_action)
            cands = []
            for (p2, ty2, _) in self.paths_from(pr2["type"][1]) + [([], "OBJECT", None)]:
                if other_action == dep_action and list(p2) == list(path):
                    continue        # two different attributes of ONE action may be compared; the same attribute twice may not
                for o in OPS:
                    if py_cmp(ty, o, ty2):
                        cands.append((p2, o))
            if cands:
                p2, o = rng.choice(cands)
                right = ("act", ("action", other_action), list(p2))
                if rng.random() < 0.5:
                    return ("cmp", left, o, right), True
                # mirrored operands need a mirrored check
                for o2 in rng.sample(OPS, len(OPS)):
                    ty2 = [t for (pp, t, _) in self.paths_from(pr2["type"][1]) + [([], "OBJECT", None)] if pp == p2][0]
                    if py_cmp(ty2, o2, ty):
                        return ("cmp", right, o2, left), True
                return ("cmp", left, o, right), True
        if ty in ("OBJECT", "OBJECT_LIST"):
            o = rng.choice(OPS)
            lit = ("lit", "SNull", self.fresh())
        else:
            o, shape = self.literal_for(ty)
            lit = ("lit", shape, self.fresh())
        if rng.random() < 0.2 and py_cmp(SHAPE_TY[lit[1]], o, ty):
            return ("cmp", lit, o, left), False
        return ("cmp", left, o, lit), False

    def promise_of_action(self, aid):
        a = next(x for x in self.s["actions"] if x["id"] == aid)
        return next(p for p in self.s["promises"] if p["id"] == a["promise"][1])

    # ---- the action DAG
    def build(self):
        rng, s = self.rng, self.s
        self.make_types()
        npar = rng.randint(1, 3)
        for i, pid in enumerate(sample_ids(rng, npar, 9)):
            s["parties"].append({"id": pid, "name": 200 + pid})
        n = self.n
        aids = sample_ids(rng, n, 40)
        pids = sample_ids(rng, n, 40)
        cids = rng.sample(sorted(set(CONFUSABLE) | set(range(0, 60))), 3 * n + 3)
        used_ms = set()
        anc = {}        # action id -> set of ancestor action ids
        creator = {}    # promise id -> creator action id
        cp_for = {}     # action id -> checkpoint id
        cp_mentions = {}  # checkpoint id -> set of actions mentioned (transitively through nesting)
        keys = set()
        for k in range(n):
            aid = aids[k]
            earlier = aids[:k]
            deps = []
            if earlier and rng.random() < 0.8:
                deps = rng.sample(earlier, min(len(earlier), rng.choice([1, 1, 2, 2, 3])))
            a_anc = set()
            for d in deps:
                a_anc |= {d} | anc[d]
            # promise: edit a promise created by an ancestor, or create a new one
            editable = [p for p, c in creator.items() if c in a_anc]
            if editable and rng.random() < 0.35:
                prom = rng.choice(sorted(editable))
                is_creator = False
            else:
                prom = pids[k]
                t = rng.choice(s["otypes"])
                s["promises"].append({"id": prom, "name": 300 + prom, "type": ("type", t["id"]), "ctx": None})
                creator[prom] = aid
                is_creator = True
            action = {"id": aid, "name": 400 + aid, "party": ("party", rng.choice(s["parties"])["id"]),
                      "promise": ("promise", prom), "ctx": None, "dep": None, "op": None, "milestones": []}
            if rng.random() < 0.25:
                free = [i for i in range(5) if i not in used_ms]
                if free:
                    m = rng.choice(free)
                    used_ms.add(m)
                    action["milestones"] = [m]
            s["actions"].append(action)
            anc[aid] = a_anc
            # checkpoint(s) encoding deps
            if deps:
                items = []
                pending = list(deps)
                # maybe reuse an existing checkpoint (nested reference) whose mentions are all earlier actions
                nestable = [c for c, m in cp_mentions.items() if m <= set(earlier)]
                mentioned = set()
                if nestable and rng.random() < 0.4:
                    c = rng.choice(sorted(nestable))
                    items.append(("ref", ("checkpoint", c)))
                    mentioned |= cp_mentions[c]
                    for m in cp_mentions[c]:
                        anc[aid] |= {m} | anc[m]
                while pending:
                    d = pending.pop()
                    other = None
                    if pending and rng.random() < 0.3:
                        other = pending.pop()
                    elif rng.random() < 0.12:
                        other = d           # both operands on the same action (different attributes)
                    cmp_, two = self.make_cmp(d, other)
                    if other is not None and other != d and not two:
                        pending.append(other)
                    items.append(cmp_)
                    mentioned |= {d} | ({other} if (other is not None and two) else set())
                rng.shuffle(items)
                if len(items) == 1 and items[0][0] == "ref":
                    cid = items[0][1][1]       # depend on the shared checkpoint directly
                else:
                    cid = cids.pop()
                    gate = rng.choice(GATES) if len(items) > 1 else None
                    s["checkpoints"].append({"id": cid, "alias": 500 + cid, "gate": gate, "deps": items, "ctx": None})
                    cp_mentions[cid] = mentioned
                action["dep"] = ("checkpoint", cid)
                cp_for[aid] = cid
            # operation
            t = self.otype(next(p for p in s["promises"] if p["id"] == prom)["type"][1])
            names = [a["name"] for a in t["attrs"]]
            mode = rng.choice(["include", "include", "exclude"])
            sel = None if rng.random() < 0.15 else rng.sample(names, rng.randint(0, min(3, len(names))))
            op = {"incl": (mode, sel), "defaults": [], "edges": [], "appends": None}
            if is_creator:
                for a in t["attrs"]:
                    if a["kind"][0] == "F" and rng.random() < 0.3:
                        ft = a["kind"][1]
                        shape = {"STRING": "SStr", "NUMERIC": rng.choice(["SInt", "SFloat"]), "BOOLEAN": "SBool",
                                 "STRING_LIST": rng.choice(["SStrs", "SEmpty"]), "NUMERIC_LIST": rng.choice(["SNums", "SEmpty"]),
                                 "BOOLEAN_LIST": rng.choice(["SBools", "SEmpty"])}[ft]
                        op["defaults"].append((a["name"], shape))
                    if a["kind"][0] == "E" and rng.random() < 0.5:
                        cands = [p for p, c in creator.items() if c in anc[aid]
                                 and next(q for q in s["promises"] if q["id"] == p)["type"] == a["kind"][1]]
                        if cands:
                            op["edges"].append((a["name"], ("promise", rng.choice(sorted(cands)))))
            action["op"] = op
        self.anc, self.creator = anc, creator
        self.free_cids = cids
        if self.threads:
            self.add_threads()
        self.add_appends()
        return s

    # ---- appends_objects_to: a creating action that nobody depends on appends its object to an edge
    #      collection (of its own object type, settable by no operation) of a promise whose fulfilment is guaranteed
    def add_appends(self):
        rng, s = self.rng, self.s
        dependees = set()
        for c in s["checkpoints"]:
            for d in c["deps"]:
                if d[0] == "cmp":
                    for o in (d[1], d[3]):
                        if o[0] == "act":
                            dependees.add(o[1][1])
        for a in s["actions"]:
            if a["id"] in dependees or self.creator.get(a["promise"][1]) != a["id"] or a["dep"] is None or rng.random() < 0.4:
                continue
            cp = next(c for c in s["checkpoints"] if c["id"] == a["dep"][1])
            if cp["gate"] == "OR":
                continue
            direct = [o[1][1] for d in cp["deps"] if d[0] == "cmp" for o in (d[1], d[3]) if o[0] == "act"]
            my_type = next(p for p in s["promises"] if p["id"] == a["promise"][1])["type"]
            cands = []
            for f in direct:
                fa = next(x for x in s["actions"] if x["id"] == f)
                q = fa["promise"][1]
                if self.creator.get(q) != f or fa["ctx"] != a["ctx"]:
                    continue        # appender and appendee must share their context
                qt = self.otype(next(p for p in s["promises"] if p["id"] == q)["type"][1])
                for at in qt["attrs"]:
                    if at["kind"][0] == "C" and at["kind"][1] == my_type:
                        cands.append((q, at["name"]))
            if not cands:
                continue
            q, attr = rng.choice(cands)
            # the collection must not be settable by any operation on q
            for x in s["actions"]:
                if x["promise"][1] != q:
                    continue
                mode, sel = x["op"]["incl"]
                if mode == "include":
                    x["op"]["incl"] = (mode, None if sel is None else [n for n in sel if n != attr])
                else:
                    x["op"]["incl"] = (mode, sorted(set((sel or []) + [attr])))
            a["op"]["appends"] = (("promise", q), [attr])

    # ---- thread groups (depth <= 2): a top-level group spawned from a list-valued path of a fulfilled promise,
    #      optionally a nested group spawned from the thread variable or from a promise; threaded actions with
    #      and without their own checkpoints; comparisons on thread variables and on threaded actions.
    def list_paths(self, tid):
        return [(p, t, o) for (p, t, o) in self.paths_from(tid) if t.endswith("_LIST")]

    def add_threads(self):
        """A forest of thread groups: 1-2 top-level groups spawned from list-valued promise paths, each with up to
        two nested groups per level down to depth 3 (spawned from the enclosing variable or from a promise that an
        ancestor of the chain fulfils), with or without a checkpoint of their own; sibling groups may reuse a
        variable name (only a nesting chain must be free of repetitions); group ids are drawn from confusable numbers."""
        rng, s = self.rng, self.s
        roots = [p for p in s["promises"] if self.list_paths(p["type"][1])]
        if not roots:
            return
        next_id = lambda coll: max([e["id"] for e in s[coll]] + [0]) + 1
        gid_pool = [g for g in sample_ids(rng, 14, 40)]
        var_counter = [rng.randrange(50)]

        def fresh_var(avoid):
            # reuse a name from another branch now and then
            others = [g["var"] for g in s["groups"] if g["var"] not in avoid]
            if others and rng.random() < 0.35:
                return rng.choice(others)
            var_counter[0] += 1
            return var_counter[0]

        def new_gid():
            # prefer an id whose decimal spelling contains (or is contained in) the id of an existing group:
            # scopes are dotted strings of ids, and only such ids expose substring / prefix handling of scopes
            existing = [x["id"] for x in s["groups"]]
            if existing and rng.random() < 0.6:
                base = str(rng.choice(existing))
                cands = [int(base + d) for d in "0123456789"] + [int(d + base) for d in "123456789"]
                if len(base) > 1:
                    cands += [int(base[:-1]), int(base[1:])]
                cands = [c for c in cands if c < 900 and c not in existing]
                if cands:
                    return rng.choice(cands)
            while gid_pool:
                g = gid_pool.pop()
                if all(x["id"] != g for x in s["groups"]):
                    return g
            return next_id("groups")

        def new_cp(deps, ctx):
            cid = self.free_cids.pop() if self.free_cids else next_id("checkpoints")
            while any(c["id"] == cid for c in s["checkpoints"]):
                cid = next_id("checkpoints")
            s["checkpoints"].append({"id": cid, "alias": 500 + cid, "gate": rng.choice(GATES) if len(deps) > 1 else None,
                                     "deps": deps, "ctx": ctx})
            return cid

        def item_type(ty, obj):
            return ty[:-5], obj

        def nested(parent, parent_anc, chain, depth):
            """chain: [(group, variable type)] from the outermost group down to parent"""
            for _ in range(rng.choice([0, 1, 1, 2]) if depth < 3 else 0):
                pvty = chain[-1][1]
                src = None
                holders = [(g, vt) for (g, vt) in chain if vt[0] == "OBJECT" and self.list_paths(vt[1])]
                if holders and rng.random() < 0.7:
                    g0, vt0 = rng.choice(holders)
                    p2, t2, o2 = rng.choice(self.list_paths(vt0[1]))
                    src, hv = ("V", g0["id"], list(p2)), item_type(t2, o2)
                else:
                    cands = [q for q in s["promises"] if self.creator.get(q["id"]) in parent_anc and q["ctx"] is None and self.list_paths(q["type"][1])]
                    if cands:
                        q = rng.choice(cands)
                        p2, t2, o2 = rng.choice(self.list_paths(q["type"][1]))
                        src, hv = ("P", ("promise", q["id"]), list(p2)), item_type(t2, o2)
                if src is None:
                    continue
                hid = new_gid()
                H = {"id": hid, "name": 600 + hid, "ctx": ("group", parent["id"]), "dep": None, "src": src,
                     "var": fresh_var([g["var"] for (g, _) in chain])}
                H_anc = set(parent_anc)
                if rng.random() < 0.4:
                    nt = [a["id"] for a in s["actions"] if a["ctx"] is None]
                    d0 = self.make_cmp(rng.choice(nt))[0]
                    # the group's own checkpoint must be visible from the enclosing group's scope
                    ctx_choices = [None] + [("group", g["id"]) for (g, _) in chain]
                    hcp = new_cp([d0], rng.choice(ctx_choices))
                    H["dep"] = ("checkpoint", hcp)
                    for o in (d0[1], d0[3]):
                        if o[0] == "act":
                            H_anc |= {o[1][1]} | self.anc[o[1][1]]
                s["groups"].append(H)
                chain2 = chain + [(H, hv)]
                used = nested(H, H_anc, chain2, depth + 1)
                # a group must be used by an action or a nested group
                if not used or rng.random() < 0.8:
                    self._thread_actions(H, H_anc, chain2, next_id, new_cp)
            return any(g["ctx"] == ("group", parent["id"]) for g in s["groups"])

        for _ in range(rng.choice([1, 1, 2])):
            P = rng.choice(roots)
            creator_action = self.creator[P["id"]]
            path, ty, obj = rng.choice(self.list_paths(P["type"][1]))
            deps = [self.make_cmp(creator_action)[0]]
            if rng.random() < 0.4:
                other = rng.choice([a["id"] for a in s["actions"] if a["ctx"] is None])
                if other != creator_action:
                    deps.append(self.make_cmp(other)[0])
            gcp = new_cp(deps, None)
            gid = new_gid()
            G = {"id": gid, "name": 600 + gid, "ctx": None, "dep": ("checkpoint", gcp), "src": ("P", ("promise", P["id"]), list(path)),
                 "var": fresh_var([])}
            s["groups"].append(G)
            G_anc = set()
            for d in deps:
                for o in (d[1], d[3]):
                    if o[0] == "act":
                        G_anc |= {o[1][1]} | self.anc[o[1][1]]
            vty = item_type(ty, obj)
            chain = [(G, vty)]
            used = nested(G, G_anc, chain, 1)
            if not used or rng.random() < 0.85:
                self._thread_actions(G, G_anc, chain, next_id, new_cp)

    def var_operand(self, g, vty):
        """An operand on the thread variable of group g with a comparison partner."""
        rng = self.rng
        ty, obj = vty
        if ty == "OBJECT":
            paths = self.paths_from(obj)
            path, pty, _ = rng.choice(paths)
            return ("var", g["id"], list(path)), pty
        return ("var", g["id"], []), ty

    def _thread_actions(self, G, G_anc, visible_vars, next_id, new_cp):
        rng, s = self.rng, self.s
        k = rng.choice([1, 1, 2, 3])
        mine = []
        for i in range(k):
            aid = next_id("actions") + rng.randrange(2)
            pid = next_id("promises") + rng.randrange(2)
            t = rng.choice(s["otypes"])
            ctx = ("group", G["id"])
            a_anc = set(G_anc)
            action = {"id": aid, "name": 400 + aid, "party": ("party", rng.choice(s["parties"])["id"]), "promise": ("promise", pid),
                      "ctx": ctx, "dep": None, "op": None, "milestones": []}
            edit = None
            if mine and rng.random() < 0.3:
                edit = rng.choice(mine)
            deps = []
            if edit is not None or rng.random() < 0.6:
                # own checkpoint inside the thread: threaded actions of this group, thread variables, outside actions
                if edit is not None:
                    deps.append(self.make_cmp(edit)[0])
                    a_anc |= {edit} | self.anc[edit]
                r = rng.random()
                if r < 0.4 and visible_vars:
                    g, vty = rng.choice(visible_vars)
                    vo, pty = self.var_operand(g, vty)
                    if pty in ("OBJECT", "OBJECT_LIST"):
                        deps.append(("cmp", vo, rng.choice(OPS), ("lit", "SNull", self.fresh())))
                    else:
                        o, shape = self.literal_for(pty)
                        deps.append(("cmp", vo, o, ("lit", shape, self.fresh())))
                elif r < 0.7 and mine:
                    m = rng.choice(mine)
                    deps.append(self.make_cmp(m)[0])
                    a_anc |= {m} | self.anc[m]
                elif not deps:
                    nt = [a["id"] for a in s["actions"] if a["ctx"] is None]
                    m = rng.choice(nt)
                    deps.append(self.make_cmp(m)[0])
                    a_anc |= {m} | self.anc[m]
                # a checkpoint that only holds a variable comparison still needs the thread context
                cid = new_cp(deps, ctx)
                action["dep"] = ("checkpoint", cid)
            elif edit is None and rng.random() < 0.2 and [c for c in s["checkpoints"] if c["ctx"] is not None and c["ctx"][1] in [g["id"] for g, _ in visible_vars]
                                                          and any(x["dep"] == ("checkpoint", c["id"]) for x in s["actions"])]:
                # several threaded actions -- of this group or of groups nested in one another -- wait for ONE checkpoint
                shared = rng.choice([c for c in s["checkpoints"] if c["ctx"] is not None and c["ctx"][1] in [g["id"] for g, _ in visible_vars]
                                     and any(x["dep"] == ("checkpoint", c["id"]) for x in s["actions"])])
                action["dep"] = ("checkpoint", shared["id"])
                stack, seen_c = [shared], set()
                while stack:
                    c0 = stack.pop()
                    if c0["id"] in seen_c:
                        continue
                    seen_c.add(c0["id"])
                    for d in c0["deps"]:
                        if d[0] == "ref":
                            stack += [c1 for c1 in s["checkpoints"] if c1["id"] == d[1][1]]
                        else:
                            for o in (d[1], d[3]):
                                if o[0] == "act":
                                    a_anc |= {o[1][1]} | self.anc.get(o[1][1], set())
            elif G["dep"] is not None and rng.random() < 0.25:
                # legal, redundant spelling: the action names the checkpoint its thread group already depends on
                action["dep"] = G["dep"]
            if edit is not None:
                prom = next(x for x in s["actions"] if x["id"] == edit)["promise"][1]
                action["promise"] = ("promise", prom)
                is_creator = False
            else:
                s["promises"].append({"id": pid, "name": 300 + pid, "type": ("type", t["id"]), "ctx": ctx})
                self.creator[pid] = aid
                is_creator = True
                prom = pid
            tt = self.otype(next(p for p in s["promises"] if p["id"] == prom)["type"][1])
            names = [a["name"] for a in tt["attrs"]]
            action["op"] = {"incl": (rng.choice(["include", "exclude"]), rng.sample(names, rng.randint(0, min(2, len(names))))),
                            "defaults": [], "edges": [], "appends": None}
            if is_creator:
                # default edges of a threaded creator: to unthreaded promises whose creator is an ancestor -- through
                # the action's own checkpoint or only through a checkpoint of its thread group(s)
                for a in tt["attrs"]:
                    if a["kind"][0] == "E" and rng.random() < 0.5:
                        cands = [p for p, c in self.creator.items() if c in a_anc
                                 and next(q for q in s["promises"] if q["id"] == p)["type"] == a["kind"][1]
                                 and next(q for q in s["promises"] if q["id"] == p)["ctx"] is None]
                        if cands:
                            action["op"]["edges"].append((a["name"], ("promise", rng.choice(sorted(cands)))))
            s["actions"].append(action)
            self.anc[aid] = a_anc
            mine.append(aid)


def operand_key(o, varname=None):
    if o[0] == "lit":
        return ("lit", json.dumps(lit_value(o[1], o[2]), sort_keys=True))
    if o[0] == "var" and varname is not None:
        # sibling threads may reuse a variable name: the two operands are then spelled alike although they denote
        # different variables, and the implementation's uniqueness constraint compares the spelling
        return ("var", ("name", varname.get(o[1], o[1])), tuple(o[2]))
    return (o[0], o[1], tuple(o[2]))


def composite_key(c, varname=None):
    deps = []
    for d in c["deps"]:
        deps.append(("ref", d[1]) if d[0] == "ref" else ("cmp", operand_key(d[1], varname), d[2], operand_key(d[3], varname)))
    return (c["gate"], tuple(sorted(map(repr, deps))))


def has_duplicate_composite(s):
    """Two checkpoints with the same gate type and the same set of dependencies (after normalising spelling;
    variables compared by name, since sibling threads may reuse one)."""
    varname = {g["id"]: g["var"] for g in s.get("groups", [])}
    keys = [composite_key(c, varname) for c in s["checkpoints"]]
    return len(keys) != len(set(keys))


def respawn_from_enclosing(rng, s, b):
    """Post-pass on a conformant threaded scenario: one NESTED thread group whose variable nobody reads is made to spawn
    from an object promise that an action of an ENCLOSING thread group fulfils -- written as a global promise reference,
    typed as ONE object from inside that group -- provided that action is among the nested group's ancestors (through
    its own checkpoint or an inherited one).  Returns True when a group was changed."""
    by_id = {g["id"]: g for g in s["groups"]}

    def chain_of(gid):
        out = []
        while gid is not None:
            out.append(gid)
            g = by_id.get(gid)
            gid = g["ctx"][1] if g and g["ctx"] else None
        return out
    gs = [g for g in s["groups"] if g["ctx"] is not None]
    rng.shuffle(gs)
    for g in gs:
        if any(h["src"][0] == "V" and h["src"][1] == g["id"] for h in s["groups"]):
            continue
        if any(d[0] == "cmp" and any(o[0] == "var" and o[1] == g["id"] for o in (d[1], d[3])) for c in s["checkpoints"] for d in c["deps"]):
            continue
        chain = chain_of(g["ctx"][1])
        mentioned = set()
        for h in [g] + [by_id[i] for i in chain if i in by_id]:
            if h["dep"] is None:
                continue
            stack, seen = [h["dep"][1]], set()
            while stack:
                cid = stack.pop()
                if cid in seen:
                    continue
                seen.add(cid)
                cp = next((c for c in s["checkpoints"] if c["id"] == cid), None)
                if cp is None:
                    continue
                for d in cp["deps"]:
                    if d[0] == "ref":
                        stack.append(d[1][1])
                    else:
                        for o in (d[1], d[3]):
                            if o[0] == "act":
                                mentioned |= {o[1][1]} | b.anc.get(o[1][1], set())
        cands = [p for p in s["promises"] if p["ctx"] is not None and p["ctx"][1] in chain and b.creator.get(p["id"]) is not None
                 and b.creator.get(p["id"]) in mentioned and b.list_paths(p["type"][1])]
        if not cands and g["dep"] is None:
            # give the nested group a checkpoint of its own, bound to the enclosing group, that waits for a threaded
            # creator of that group (in scope there): the creator becomes an ancestor of the nested group
            parent = g["ctx"][1]
            own = [p for p in s["promises"] if p["ctx"] is not None and p["ctx"][1] == parent and b.list_paths(p["type"][1])
                   and b.creator.get(p["id"]) is not None
                   and any(a["id"] == b.creator[p["id"]] and a["ctx"] == ("group", parent) and a["op"]["appends"] is None for a in s["actions"])]
            if own:
                p0 = rng.choice(own)
                aid = b.creator[p0["id"]]
                cid = max([c["id"] for c in s["checkpoints"]] + [0]) + 1
                s["checkpoints"].append({"id": cid, "alias": 500 + cid, "gate": None, "deps": [b.make_cmp(aid)[0]], "ctx": ("group", parent)})
                g["dep"] = ("checkpoint", cid)
                extra = {aid} | b.anc.get(aid, set())
                inside = {h["id"] for h in s["groups"] if g["id"] in chain_of(h["id"])}
                for a in s["actions"]:
                    if a["ctx"] is not None and a["ctx"][1] in inside:
                        b.anc[a["id"]] = b.anc.get(a["id"], set()) | extra
                cands = [p0]
        if not cands:
            continue
        p = rng.choice(cands)
        path = rng.choice(b.list_paths(p["type"][1]))[0]
        g["src"] = ("P", ("promise", p["id"]), list(path))
        return True
    return False


def gen_valid(rng, n_actions=None, threads=False, builder=False):
    for _ in range(20):
        n = n_actions or rng.choice([2, 3, 4, 5, 6, 8, 10])
        b = Builder(rng, n, threads)
        s = b.build()
        if threads and rng.random() < 0.4:
            respawn_from_enclosing(rng, s, b)
        if not has_duplicate_composite(s):
            return (s, b) if builder else s
    raise RuntimeError("could not generate a scenario without duplicate checkpoints")


# ----------------------------------------------------------------------------------------------- rendering
RENDER_HOOKS = []     # extensions (e.g. pipelines): functions (renderer, doc) -> None that add to the document


GHOST = 7000          # ids in [GHOST, GHOST+1000) denote "entity id-GHOST of a schema that is not imported"
GHOST_FILES = ["nonexistent/not_a_schema", "test/small_example_schema", "test/basic_import"]


class Renderer:
    """Scenario -> JSON document.  `spell(kind, id)` decides id vs alias spelling per occurrence."""

    def __init__(self, s, rng=None, spelling="mixed", shuffle=False, descriptive=False, numeric_names=False):
        self.s, self.rng = s, rng or random.Random(0)
        self.spelling, self.shuffle, self.descriptive = spelling, shuffle, descriptive
        self.names = {}
        self.name_of = {}      # (kind, name index) -> rendered name
        if numeric_names == "odd":
            # names are arbitrary: attribute names need only be dotless, entity names / aliases may carry spaces (also
            # leading and trailing), hyphens, parentheses, non-ASCII letters
            numeric_names = False
            self.attr_name = lambda n: ["attr%d", "unit-price %d", "attr(%d)", "at tr%d ", "\u00e5ttr %d", "a/%d+b"][n % 6] % n
            self.entity_name = lambda kind, n: ["%s %d", "%s %d ", " %s %d", "%s-%d (x)", "%s  %d", "\u00e9%s %d"][n % 6] % (kind, n)
        if numeric_names == "case":
            # names that differ only in letter case are different names: pairs of entities are called "Kind k" / "kind k"
            numeric_names = False
            self.entity_name = lambda kind, n: ("%s %d" % (kind.capitalize(), n // 2)) if n % 2 else ("%s %d" % (kind, n // 2))
            self.attr_name = lambda n: ("Attr%d" % (n // 2)) if n % 2 else ("attr%d" % (n // 2))
        for coll, kind, nk in (("parties", "party", "name"), ("otypes", "type", "name"), ("promises", "promise", "name"),
                               ("actions", "action", "name"), ("checkpoints", "checkpoint", "alias"), ("groups", "group", "name")):
            ids = [e["id"] for e in s[coll]]
            nidx = [e[nk] for e in s[coll]]
            own = numeric_names == "own"
            numeric = numeric_names and len(set(ids)) == len(ids) and len(set(nidx)) == len(nidx) and len(ids) >= 1
            for k, e in enumerate(s[coll]):
                if numeric and own:
                    # every entity is named like its OWN id: "kind:{7}" and "kind:7" denote the same entity
                    nm = str(ids[k])
                elif numeric:
                    # the alias of one entity is the decimal spelling of the id of the NEXT one (its own when alone):
                    # "kind:{7}" and "kind:7" then denote different entities
                    nm = str(ids[(k + 1) % len(ids)])
                else:
                    nm = self.entity_name(kind, e[nk])
                self.name_of.setdefault((kind, e[nk]), nm)
                self.names.setdefault((kind, e["id"]), self.name_of[(kind, e[nk])])

    def ename(self, kind, n):
        return self.name_of.get((kind, n), self.entity_name(kind, n))

    @staticmethod
    def entity_name(kind, n):
        return "%s %d" % (kind, n)

    @staticmethod
    def attr_name(n):
        return "attr%d" % n

    @staticmethod
    def var_name(n):
        return "$v%d" % n

    def ref(self, r, force=None):
        kind, i = r
        if GHOST <= i < GHOST + 1000:
            # a reference qualified by a schema that is not imported; its local part is spelled like the native
            # reference it was derived from (so it would resolve if the qualifier were ignored)
            if not hasattr(self, "ghost_used"):
                self.ghost_used = set()
            self.ghost_used.add(GHOST_FILES[i % len(GHOST_FILES)])
            return "schema:{%s}.%s" % (GHOST_FILES[i % len(GHOST_FILES)], self.ref((kind, i - GHOST), force))
        mode = force or self.spelling
        if mode == "mixed":
            mode = "alias" if self.rng.random() < 0.5 else "id"
        elif mode == "entity":
            # mixed, but decided per entity and independent of the order of rendering: an entity is always referred to
            # in one spelling, half of the entities by alias
            mode = "alias" if int(hashlib.sha1(("%s:%s" % (kind, i)).encode()).hexdigest(), 16) % 2 else "id"
        if mode == "alias" and (kind, i) in self.names:
            return "%s:{%s}" % (JSON_KIND[kind], self.names[(kind, i)])
        if mode == "alias":
            return "%s:{no such %s %d}" % (JSON_KIND[kind], kind, i)
        return "%s:%d" % (JSON_KIND[kind], i)

    def operand(self, o):
        if o[0] == "lit":
            return {"value": lit_value(o[1], o[2])}
        if o[0] == "act":
            out = {"ref": ".".join([self.ref(o[1]), "object_promise"] + [self.attr_name(n) for n in o[2]])}
        else:
            g = next((x for x in self.s["groups"] if x["id"] == o[1]), None)
            v = self.var_name(g["var"]) if g else "$nosuchvar%d" % o[1]
            out = {"ref": ".".join([v] + [self.attr_name(n) for n in o[2]])}
        if self.descriptive and self.rng.random() < 0.4:
            out["context"] = "RUNTIME"     # (the only value a comparison operand allows) when the reference is resolved: no effect on validity
        return out

    def dep(self, d):
        if d[0] == "ref":
            return {"checkpoint": self.ref(d[1])}
        out = {"compare": {"left": self.operand(d[1]), "operator": d[2], "right": self.operand(d[3])}}
        if self.descriptive and self.rng.random() < 0.5:
            out["description"] = "compares something"
        return out

    def maybe_shuffle(self, l):
        l = list(l)
        if self.shuffle:
            self.rng.shuffle(l)
        return l

    def render(self):
        s, rng = self.s, self.rng
        doc = {"standard": "generated", "terms": [], "parties": [], "object_types": [], "object_promises": [],
               "pipelines": [], "actions": [], "checkpoints": []}
        for p in s["parties"]:
            e = {"id": p["id"], "name": self.ename("party", p["name"])}
            if self.descriptive and rng.random() < 0.5:
                e["hex_code"] = rng.choice(["#fff", "#A0b1C2"])
            doc["parties"].append(e)
        for t in s["otypes"]:
            attrs = []
            for a in t["attrs"]:
                k = a["kind"]
                e = {"name": self.attr_name(a["name"]), "type": k[1] if k[0] == "F" else ("EDGE" if k[0] == "E" else "EDGE_COLLECTION")}
                if k[0] != "F":
                    e["object_type"] = self.ref(k[1])
                if self.descriptive and rng.random() < 0.3:
                    e["description"] = "an attribute"
                attrs.append(e)
            e = {"id": t["id"], "name": self.ename("type", t["name"]), "attributes": self.maybe_shuffle(attrs)}
            if self.descriptive and rng.random() < 0.5:
                e["description"] = "a type"
            doc["object_types"].append(e)
        for p in s["promises"]:
            e = {"id": p["id"], "name": self.ename("promise", p["name"]), "object_type": self.ref(p["type"])}
            if p["ctx"] is not None:
                e["context"] = self.ref(p["ctx"])
            if self.descriptive and rng.random() < 0.5:
                e["description"] = "a promise"
            doc["object_promises"].append(e)
        for a in s["actions"]:
            op = {}
            mode, sel = a["op"]["incl"]
            op[mode] = None if sel is None else self.maybe_shuffle([self.attr_name(n) for n in sel])
            if a["op"]["defaults"]:
                op["default_values"] = {self.attr_name(n): lit_value(sh, 7) for n, sh in a["op"]["defaults"]}
            if a["op"]["edges"]:
                op["default_edges"] = {self.attr_name(n): self.ref(r) for n, r in a["op"]["edges"]}
            if a["op"]["appends"] is not None:
                r, path = a["op"]["appends"]
                op["appends_objects_to"] = ".".join([self.ref(r)] + [self.attr_name(n) for n in path])
            e = {"id": a["id"], "name": self.ename("action", a["name"]), "description": "does something",
                 "party": self.ref(a["party"]), "object_promise": self.ref(a["promise"]), "operation": op}
            if a["ctx"] is not None:
                e["context"] = self.ref(a["ctx"])
            if a["dep"] is not None:
                e["depends_on"] = self.ref(a["dep"])
            if a["milestones"]:
                e["milestones"] = self.maybe_shuffle([MILESTONES[m] for m in a["milestones"]])
            if self.descriptive and rng.random() < 0.4:
                e["supporting_info"] = ["some info"]
            if self.descriptive and rng.random() < 0.3:
                e["steps"] = [{"title": "t", "description": "d"}]
            doc["actions"].append(e)
        for c in s["checkpoints"]:
            e = {"id": c["id"], "alias": self.ename("checkpoint", c["alias"]), "description": "a checkpoint",
                 "dependencies": self.maybe_shuffle([self.dep(d) for d in c["deps"]])}
            if c["gate"] is not None:
                e["gate_type"] = c["gate"]
            if c["ctx"] is not None:
                e["context"] = self.ref(c["ctx"])
            if self.descriptive and rng.random() < 0.3:
                e["abbreviated_description"] = "cp"
                e["supporting_info"] = ["info"]
            doc["checkpoints"].append(e)
        if s["groups"]:
            doc["thread_groups"] = []
            for g in s["groups"]:
                if g["src"][0] == "P":
                    fe = ".".join([self.ref(g["src"][1])] + [self.attr_name(n) for n in g["src"][2]])
                else:
                    og = next((x for x in s["groups"] if x["id"] == g["src"][1]), None)
                    fe = ".".join([self.var_name(og["var"]) if og else "$nosuch"] + [self.attr_name(n) for n in g["src"][2]])
                e = {"id": g["id"], "name": self.ename("group", g["name"]), "description": "a thread group",
                     "spawn": {"foreach": fe, "as": self.var_name(g["var"])}}
                if g["ctx"] is not None:
                    e["context"] = self.ref(g["ctx"])
                if g["dep"] is not None:
                    e["depends_on"] = self.ref(g["dep"])
                doc["thread_groups"].append(e)
        for hook in RENDER_HOOKS:
            hook(self, doc)
        if self.shuffle:
            for k in ("parties", "object_types", "object_promises", "actions", "checkpoints", "thread_groups", "pipelines"):
                if k in doc:
                    rng.shuffle(doc[k])
            keys = list(doc.keys())
            rng.shuffle(keys)
            doc = {k: doc[k] for k in keys}
        if self.descriptive and rng.random() < 0.5:
            doc["zzz_unknown_property"] = {"anything": [1, 2, 3]}
        if getattr(self, "ghost_used", None) and int(hashlib.sha1(json.dumps(sorted(self.ghost_used)).encode()).hexdigest(), 16) % 4 != (len(doc["actions"]) % 4):
            # the document itself carries an "imported_schemas" property (an unknown property for the specification:
            # what it holds is not an import) in which the unloaded schema's entities could be found
            # (only the parties and object types: a carried copy of actions or checkpoints would take part in the
            #  document-wide searches and fail for other reasons)
            carried = {"standard": "carried", "parties": copy.deepcopy(doc["parties"]), "object_types": copy.deepcopy(doc["object_types"]),
                       "object_promises": [], "actions": [], "checkpoints": [], "thread_groups": [], "pipelines": []}
            doc["imported_schemas"] = {f: copy.deepcopy(carried) for f in sorted(self.ghost_used)}
        return doc


def render(s, rng=None, spelling="mixed", shuffle=False, descriptive=False, numeric_names=False):
    return Renderer(s, rng, spelling, shuffle, descriptive, numeric_names).render()


# ----------------------------------------------------------------------------------------------- Coq printing
def cq_ref(r):
    return "(Ref %s %d)" % (COQ_KIND[r[0]], r[1])


def cq_oref(r):
    return "None" if r is None else "(Some %s)" % cq_ref(r)


def cq_list(xs):
    return "[" + "; ".join(xs) + "]"


def cq_nats(xs):
    return cq_list(str(x) for x in xs)


def cq_operand(o):
    if o[0] == "lit":
        return "(OLit (Lit %s %d))" % (o[1], o[2])
    if o[0] == "act":
        return "(OAct %s %s)" % (cq_ref(o[1]), cq_nats(o[2]))
    return "(OVar %d %s)" % (o[1], cq_nats(o[2]))


def cq_dep(d):
    if d[0] == "ref":
        return "(DRef %s)" % cq_ref(d[1])
    return "(DCmp %s %s %s)" % (cq_operand(d[1]), d[2], cq_operand(d[3]))


def cq_kind(k):
    if k[0] == "F":
        return "(KField %s)" % k[1]
    return "(%s %s)" % ("KEdge" if k[0] == "E" else "KEdgeColl", cq_ref(k[1]))


def cq_op(op):
    mode, sel = op["incl"]
    incl = "(%s %s)" % ("Include" if mode == "include" else "Exclude", "None" if sel is None else "(Some %s)" % cq_nats(sel))
    app = "None" if op["appends"] is None else "(Some (%s, %s))" % (cq_ref(op["appends"][0]), cq_nats(op["appends"][1]))
    return "(Build_operation %s %s %s %s)" % (
        incl, cq_list("(%d, %s)" % (n, sh) for n, sh in op["defaults"]),
        cq_list("(%d, %s)" % (n, cq_ref(r)) for n, r in op["edges"]), app)


def to_coq(s):
    parties = cq_list("(Build_party %d %d)" % (p["id"], p["name"]) for p in s["parties"])
    otypes = cq_list("(Build_otype %d %d %s)" % (t["id"], t["name"], cq_list(
        "(Build_attr %d %s)" % (a["name"], cq_kind(a["kind"])) for a in t["attrs"])) for t in s["otypes"])
    promises = cq_list("(Build_promise %d %d %s %s)" % (p["id"], p["name"], cq_ref(p["type"]), cq_oref(p["ctx"]))
                       for p in s["promises"])
    actions = cq_list("(Build_action %d %d %s %s %s %s %s %s)" % (
        a["id"], a["name"], cq_ref(a["party"]), cq_ref(a["promise"]), cq_oref(a["ctx"]), cq_oref(a["dep"]),
        cq_op(a["op"]), cq_nats(a["milestones"])) for a in s["actions"])
    cps = cq_list("(Build_checkpoint %d %d %s %s %s)" % (
        c["id"], c["alias"], "None" if c["gate"] is None else "(Some G_%s)" % c["gate"],
        cq_list(cq_dep(d) for d in c["deps"]), cq_oref(c["ctx"])) for c in s["checkpoints"])
    groups = cq_list("(Build_tgroup %d %d %s %s %s %d)" % (
        g["id"], g["name"], cq_oref(g["ctx"]), cq_oref(g["dep"]),
        ("(SpPromise %s %s)" % (cq_ref(g["src"][1]), cq_nats(g["src"][2])) if g["src"][0] == "P"
         else "(SpVar %d %s)" % (g["src"][1], cq_nats(g["src"][2]))), g["var"]) for g in s["groups"])
    return "(Build_schema %s %s %s %s %s %s)" % (parties, otypes, promises, actions, cps, groups)


COQ_HEADER = """From Coq Require Import List Bool Arith.
From OIS Require Import Base.Types Base.PipeTypes Spec.Compare Model.Schema Model.Rules Gen.Tables.
Import ListNotations.
"""


def coq_cases_file(scenarios, impl_accepts):
    """Coq file printing (a) the indices where the model of the CURRENT implementation (specification plus
    recorded known findings: conforms_kf) differs from the implementation's verdict, and (b) the indices
    where a known finding makes that model differ from the specification (conforms)."""
    lines = [COQ_HEADER, "Definition cases : list (schema * bool) := ["]
    lines.append(";\n".join("  (%s, %s)" % (to_coq(s), "true" if acc else "false") for s, acc in zip(scenarios, impl_accepts)))
    lines.append("].")
    # has_cycle is the last conjunct of conforms_with; deciding it first (the `if` is lazy under vm_compute, `&&` is
    # not) avoids evaluating the fuel-bounded guaranteed-ancestry search on cyclic graphs, where it is exponential
    lines.append("Definition verdict_kf (s : schema) : bool := if has_cycle s then false else conforms_kf default_value_table s.")
    lines.append("Definition verdict (s : schema) : bool := if has_cycle s then false else conforms default_value_table s.")
    lines.append("Fixpoint failing (i : nat) (l : list (schema * bool)) : list nat :=")
    lines.append("  match l with [] => [] | (s, b) :: r => (if Bool.eqb (verdict_kf s) b then [] else [i]) ++ failing (S i) r end.")
    lines.append("Fixpoint kfhits (i : nat) (l : list (schema * bool)) : list nat :=")
    lines.append("  match l with [] => [] | (s, b) :: r => (if Bool.eqb (verdict_kf s) (verdict s) then [] else [i]) ++ kfhits (S i) r end.")
    lines.append("Eval vm_compute in (failing 0 cases).")
    lines.append("Eval vm_compute in (kfhits 0 cases).")
    return "\n".join(lines) + "\n"
