"""Aggregation pipelines on abstract scenarios (mirror of coq/theories/Model/PipeRules.v): generator of conformant
pipelines, renderer hook, printer to Coq terms, single-fault mutators for C08 (typing) and C09 (scoping).

s["pipelines"] = [{id, name, promise: ref, vars: [var], trav: [trav], apply: [app], out: [(var, attr)]}]
  var   = {name, type: one of the 8 variable types, init: shape}
  trav  = {src, as, vars: [var], trav: [trav], apply: [app]}
  src   = ('P', ref, path) | ('V', name, path) | ('L', path)
  app   = {src, step, method, to}
  step  = None | ('agg', None | path, op) | ('filter', [clause]) | ('sort', [path]) | ('select', path)
  clause = ('cmp', fop, op, fop) | ('nest', [clause])
  fop   = ('item', bare, path) | ('var', name, path) | ('prom', ref, path) | ('local', path) | ('lit', shape, tag)
Variable names are ints; a pipeline variable n and the thread variable of a group with var == n are both "$v<n>".
The python typing functions below only steer generation and mutation; the oracle is the Coq model."""
import copy, random, json
import scenario as S
import mutators as M
from scenario import OPS, SHAPE_TY, py_cmp, cq_ref, cq_list, cq_nats, lit_value

VAR_TYPES = ["STRING", "NUMERIC", "BOOLEAN", "STRING_LIST", "NUMERIC_LIST", "BOOLEAN_LIST", "OBJECT", "OBJECT_LIST"]
METHODS = ["ADD", "SUBTRACT", "MULTIPLY", "DIVIDE", "APPEND", "PREPEND", "CONCAT", "SET", "AND", "OR"]
AGGS = ["AVERAGE", "COUNT", "MAX", "MIN", "SUM", "FIRST", "LAST", "AND", "OR"]
LEGAL_INIT = {"STRING": ["SNull", "SStr"], "NUMERIC": ["SNull", "SInt", "SFloat"], "BOOLEAN": ["SNull", "SBool"],
              "OBJECT": ["SNull"], "STRING_LIST": ["SEmpty", "SStrs"], "NUMERIC_LIST": ["SEmpty", "SNums"],
              "BOOLEAN_LIST": ["SEmpty", "SBools"], "OBJECT_LIST": ["SEmpty"]}
ALL_SHAPES = ["SNull", "SStr", "SInt", "SFloat", "SBool", "SEmpty", "SStrs", "SNums", "SBools", "SMixed", "SNulls", "SNested", "SObj"]


# ----------------------------------------------------------------------------------------------- python mirror (types)
# a type is (is_list, item, obj) with item in STRING/NUMERIC/BOOLEAN/OBJECT and obj an object type id or None
def ty_str(t):
    return t[1] + ("_LIST" if t[0] else "")


def decl_type(ty):
    return (ty.endswith("_LIST"), ty.split("_")[0], None)


def find(coll, i):
    return next((e for e in coll if e["id"] == i), None)


def chain(s, gid):
    out = []
    while gid is not None and gid not in out:
        out.append(gid)
        g = find(s["groups"], gid)
        gid = g["ctx"][1] if g and g["ctx"] else None
    return out


def walk(s, tid, lst, path):
    """Type of an attribute path from (a list of, when lst) objects of type tid; None when it does not resolve
    or would nest lists."""
    t = find(s["otypes"], tid)
    if t is None:
        return None
    cur = (lst, "OBJECT", tid)
    for k, seg in enumerate(path):
        if t is None:
            return None
        a = next((x for x in t["attrs"] if x["name"] == seg), None)
        if a is None:
            return None
        kind = a["kind"]
        if kind[0] == "F":
            if k < len(path) - 1:
                return None
            isl = kind[1].endswith("_LIST")
            if isl and cur[0]:
                return None
            return (cur[0] or isl, kind[1].split("_")[0], None)
        if kind[1][0] != "type":
            return None
        if kind[0] == "C":
            if cur[0]:
                return None
            cur = (True, "OBJECT", kind[1][1])
        else:
            cur = (cur[0], "OBJECT", kind[1][1])
        t = find(s["otypes"], kind[1][1])
    return cur


def all_paths(s, tid, lst, hops=2):
    """[(path, type)] for every non-empty resolvable path of at most hops+1 segments."""
    out = []

    def rec(t, path, depth):
        ot = find(s["otypes"], t)
        if ot is None:
            return
        for a in ot["attrs"]:
            p = path + [a["name"]]
            ty = walk(s, tid, lst, p)
            if ty is None:
                continue
            out.append((p, ty))
            if a["kind"][0] != "F" and depth < hops:
                rec(a["kind"][1][1], p, depth + 1)
    rec(tid, [], 0)
    return out


def promise_type(s, ctx, pid, path):
    """Type of object_promise:<pid>.<path> seen from thread context ctx (a group id or None)."""
    p = find(s["promises"], pid)
    if p is None or p["type"][0] != "type":
        return None
    many = p["ctx"] is not None and p["ctx"][1] not in chain(s, ctx)
    if not path:
        return (many, "OBJECT", p["type"][1])
    r = walk(s, p["type"][1], False, path)
    if r is None or (many and r[0]):
        return None
    return (r[0] or many, r[1], r[2])


def group_var_type(s, gid, depth=0):
    g = find(s["groups"], gid)
    if g is None or depth > 8:
        return None
    parent = g["ctx"][1] if g["ctx"] else None
    if g["src"][0] == "P":
        r = promise_type(s, parent, g["src"][1][1], g["src"][2])
    else:
        v = group_var_type(s, g["src"][1], depth + 1)
        if v is None:
            return None
        if g["src"][2]:
            r = walk(s, v[2], False, g["src"][2]) if v[1] == "OBJECT" and v[2] is not None else None
        else:
            r = v
    if r is None or not r[0]:
        return None
    return (False, r[1], r[2])


def thread_vars(s, ctx):
    """{name: type} of the thread variables visible in thread context ctx (innermost first wins)."""
    out = {}
    for gid in chain(s, ctx):
        g = find(s["groups"], gid)
        if g is not None and g["var"] not in out:
            t = group_var_type(s, gid)
            if t is not None:
                out[g["var"]] = t
    return out


def prefix(a, b):
    return tuple(b[:len(a)]) == tuple(a)


class Store:
    def __init__(self):
        self.e = []

    def get(self, name, sc):
        best = None
        for x in self.e:
            if x["name"] == name and prefix(x["scope"], sc) and (best is None or len(x["scope"]) > len(best["scope"])):
                best = x
        return best

    def declare(self, sc, name, ty, null=False, assigned=False, loop=False):
        x = {"scope": tuple(sc), "name": name, "type": ty, "null": null, "assigned": assigned, "loop": loop, "trav": []}
        self.e.append(x)
        return x

    def visible(self, sc):
        return [x for x in self.e if prefix(x["scope"], sc)]

    def snapshot(self):
        st = Store()
        st.e = [dict(x, trav=list(x["trav"])) for x in self.e]
        return st


def var_path_type(s, vt, path):
    if not path:
        return vt
    if vt[1] != "OBJECT" or vt[2] is None:
        return None
    return walk(s, vt[2], vt[0], path)


def var_ref_type(s, ctx, st, sc, name, path):
    e = st.get(name, sc)
    if e is not None:
        return var_path_type(s, e["type"], path)
    tv = thread_vars(s, ctx).get(name)
    return var_path_type(s, tv, path) if tv is not None else None


def src_type(s, ctx, own, st, sc, src):
    if src[0] == "P":
        if src[1][0] != "promise" or src[1][1] == own:
            return None
        return promise_type(s, ctx, src[1][1], src[2])
    if src[0] == "V":
        return var_ref_type(s, ctx, st, sc, src[1], src[2])
    return None


AGG_OK = {"BOOLEAN": ["AND", "OR", "COUNT"], "STRING": ["FIRST", "LAST", "COUNT"],
          "NUMERIC": ["FIRST", "LAST", "COUNT", "SUM", "AVERAGE", "MIN", "MAX"], "OBJECT": ["FIRST", "LAST", "COUNT"]}


def agg_result(f, op):
    """Type of aggregating the list type f with op (None if the operator does not fit)."""
    if not f[0] or op not in AGG_OK.get(f[1], []):
        return None
    if op in ("FIRST", "LAST"):
        return (False, f[1], f[2])
    return (False, "BOOLEAN" if op in ("AND", "OR") else "NUMERIC", None)


def step_type(s, r, step):
    """Type of the source after its step, for steps of a conformant pipeline (filter clauses are not re-checked)."""
    if step is None:
        return r
    if step[0] == "agg":
        f = r if step[1] is None else (walk(s, r[2], r[0], step[1]) if r[1] == "OBJECT" and r[2] is not None else None)
        return None if f is None else agg_result(f, step[2])
    if step[0] in ("filter", "sort"):
        return r if r[0] else None
    if step[0] == "select":
        return walk(s, r[2], r[0], step[1]) if r[2] is not None else None
    return None


def combine(L, m, R, null):
    l, r = (L[0], L[1]), (R[0], R[1])
    if null:
        return m == "SET" and l == r
    if m == "SET":
        return False
    if m == "CONCAT":
        return l == r and (l[0] or l[1] == "STRING")
    if m in ("ADD", "SUBTRACT", "MULTIPLY", "DIVIDE"):
        return l == r == (False, "NUMERIC")
    if m in ("AND", "OR"):
        return l == r == (False, "BOOLEAN")
    return l[0] and not r[0] and l[1] == r[1]


def merge_obj(vt, rt):
    """(ok, new variable type) after an application whose stepped source has type rt."""
    if vt[2] is None:
        if vt[1] == "OBJECT" and rt[2] is not None:
            return True, (vt[0], vt[1], rt[2])
        return True, vt
    return (rt[2] == vt[2]), vt


def flatten(pl):
    """The validator's order: [(kind, scope, payload)] with payload the very dict / tuple of the scenario."""
    out = [("decl", (), d, True) for d in pl["vars"]]

    def rec(parent, i, t):
        sc = parent + (i,)
        out.append(("trav", sc, t, None))
        out.extend(("decl", sc, d, False) for d in t["vars"])
        for j, sub in enumerate(t["trav"]):
            rec(sc, j, sub)
        out.extend(("app", sc, a, None) for a in t["apply"])
    for i, t in enumerate(pl["trav"]):
        rec((), i, t)
    out.extend(("app", (), a, None) for a in pl["apply"])
    out.extend(("out", (), o, None) for o in pl["out"])
    return out


def pipe_ctx(s, pl):
    p = find(s["promises"], pl["promise"][1])
    return p["ctx"][1] if p is not None and p["ctx"] is not None else None


def replay(s, pl):
    """[(instr, store before it, info)] for a conformant pipeline; info = (source type, stepped type, target entry)
    for applications, the source type for traversals."""
    ctx, own = pipe_ctx(s, pl), pl["promise"][1]
    st = Store()
    out = []
    for ins in flatten(pl):
        kind, sc, x, top = ins
        before = st.snapshot()
        info = None
        if kind == "decl":
            st.declare(sc, x["name"], decl_type(x["type"]), null=(x["init"] == "SNull"))
        elif kind == "trav":
            t = src_type(s, ctx, own, st, sc, x["src"])
            info = t
            if x["src"][0] == "V":
                e = st.get(x["src"][1], sc)
                if e is not None:
                    e["trav"].append(sc)
            if t is not None:
                st.declare(sc, x["as"], (False, t[1], t[2]), assigned=True, loop=True)
        elif kind == "app":
            r = src_type(s, ctx, own, st, sc, x["src"])
            rt = step_type(s, r, x["step"]) if r is not None else None
            e = st.get(x["to"], sc)
            info = (r, rt, dict(e) if e is not None else None)
            if e is not None and rt is not None:
                e["assigned"] = True
                ok, nt = merge_obj(e["type"], rt)
                e["type"] = nt
        out.append((ins, before, info))
    return out, st


# ----------------------------------------------------------------------------------------------- generator
def compared_attrs(s, pid):
    """Attributes of promise pid that some checkpoint compares as <action on pid>.object_promise.<attr>."""
    acts = {a["id"] for a in s["actions"] if a["promise"] == ("promise", pid)}
    out = set()
    for c in s["checkpoints"]:
        for d in c["deps"]:
            if d[0] == "cmp":
                for o in (d[1], d[3]):
                    if o[0] == "act" and o[1][0] == "action" and o[1][1] in acts and len(o[2]) == 1:
                        out.add(o[2][0])
    return out


def make_unsettable(s, pid, attr):
    for x in s["actions"]:
        if x["promise"] != ("promise", pid):
            continue
        mode, sel = x["op"]["incl"]
        if mode == "include":
            x["op"]["incl"] = (mode, None if sel is None else [n for n in sel if n != attr])
        else:
            x["op"]["incl"] = (mode, sorted(set((sel or []) + [attr])))
        x["op"]["defaults"] = [d for d in x["op"]["defaults"] if d[0] != attr]
        x["op"]["edges"] = [e for e in x["op"]["edges"] if e[0] != attr]


def attr_type(a):
    k = a["kind"]
    if k[0] == "F":
        return decl_type(k[1])
    return (k[0] == "C", "OBJECT", k[1][1])


class PipeGen:
    def __init__(self, b, rng):
        self.b, self.rng, self.s = b, rng, b.s
        used = {g["var"] for g in self.s["groups"]}
        self.pool = [n for n in range(60, 400) if n not in used]
        rng.shuffle(self.pool)
        self._paths, self._steps, self._psrc = {}, {}, {}

    def paths(self, tid, lst, hops=2):
        k = (tid, lst, hops)
        if k not in self._paths:
            self._paths[k] = all_paths(self.s, tid, lst, hops)
        return self._paths[k]

    def promise_sources(self, ctx, own):
        """[(src, type)] of every object promise path readable from thread context ctx (the own promise excluded)."""
        k = (ctx, own)
        if k not in self._psrc:
            s, out = self.s, []
            for q in s["promises"]:
                if q["id"] == own or q["id"] not in self.b.creator:
                    continue
                t = promise_type(s, ctx, q["id"], [])
                if t is None:
                    continue
                out.append((("P", ("promise", q["id"]), []), t))
                for p, _ in self.paths(q["type"][1], False):
                    pt = promise_type(s, ctx, q["id"], p)
                    if pt is not None:
                        out.append((("P", ("promise", q["id"]), p), pt))
            self._psrc[k] = out
        return self._psrc[k]

    # ---- names: fresh, or (sometimes) a name declared in a scope that is not visible here
    def fresh_name(self, st, sc, ctx_names):
        rng = self.rng
        if rng.random() < 0.25:
            cands = [x["name"] for x in st.e if st.get(x["name"], sc) is None and x["name"] not in ctx_names]
            if cands:
                return rng.choice(cands)
        if rng.random() < 0.15:
            # the variable of a thread group that is not in the pipeline's thread context
            cands = [g["var"] for g in self.s["groups"] if g["var"] not in ctx_names and st.get(g["var"], sc) is None]
            if cands:
                return rng.choice(cands)
        return self.pool.pop()

    def rand_decl(self, name, ty=None):
        ty = ty or self.rng.choice(VAR_TYPES)
        return {"name": name, "type": ty, "init": self.rng.choice(LEGAL_INIT[ty])}

    # ---- sources readable in scope sc: [(src, type)]
    def sources(self, st, sc, ctx, own, with_paths=True):
        s = self.s
        out = list(self.promise_sources(ctx, own))
        names = {}
        for n, t in thread_vars(s, ctx).items():
            names[n] = t
        for x in st.visible(sc):
            names[x["name"]] = x["type"]
        for n, t in names.items():
            out.append((("V", n, []), t))
            if with_paths and t[1] == "OBJECT" and t[2] is not None:
                for p, pt in self.paths(t[2], t[0]):
                    out.append((("V", n, p), pt))
        return out

    def steps_for(self, r):
        """[(step or step kind to be filled in, result type)] for a source of type r."""
        if r in self._steps:
            return self._steps[r]
        s = self.s
        out = [(None, r)]
        self._steps[r] = out
        if r[0]:
            for op in AGG_OK.get(r[1], []):
                out.append((("agg", None, op), agg_result(r, op)))
            out.append((("filter",), r))
            out.append((("sort",), r))
        if r[1] == "OBJECT" and r[2] is not None:
            for p, f in self.paths(r[2], r[0]):
                if f[0]:
                    for op in AGG_OK.get(f[1], []):
                        out.append((("agg", p, op), agg_result(f, op)))
                out.append((("select", p), f))
        return out

    # ---- filters
    def gen_cmp(self, st, sc, ctx, own, r):
        rng, s = self.rng, self.s
        item_t = (False, r[1], r[2])
        items = [([], item_t)]
        if r[2] is not None:
            items += self.paths(r[2], False)
        p1, t1 = rng.choice(items) if rng.random() < 0.8 else items[0]
        left = ("item", False, list(p1))
        ty1 = ty_str(t1)
        others = [(("item", rng.random() < 0.5, list(p)), t) for p, t in items if list(p) != list(p1)]
        if rng.random() < 0.6:
            for src, t in self.sources(st, sc, ctx, own):
                others.append(((("prom", src[1], src[2]) if src[0] == "P" else ("var", src[1], src[2])), t))
        pairs = []
        for o, t in others:
            for op in OPS:
                if py_cmp(ty1, op, ty_str(t)):
                    pairs.append((left, op, o))
                if py_cmp(ty_str(t), op, ty1):
                    pairs.append((o, op, left))
        if pairs and rng.random() < 0.5:
            l, op, rr = rng.choice(pairs)
            return ("cmp", l, op, rr)
        if t1[1] == "OBJECT":
            op, lit = rng.choice(OPS), ("lit", "SNull", self.b.fresh())
        else:
            op, shape = self.b.literal_for(ty1)
            lit = ("lit", shape, self.b.fresh())
        if rng.random() < 0.25 and py_cmp(SHAPE_TY[lit[1]], op, ty1):
            return ("cmp", lit, op, left)
        return ("cmp", left, op, lit)

    def gen_clauses(self, st, sc, ctx, own, r, depth, n):
        rng = self.rng
        out = []
        for _ in range(n):
            if depth < 3 and rng.random() < 0.3:
                out.append(("nest", self.gen_clauses(st, sc, ctx, own, r, depth + 1, rng.choice([2, 2, 3]))))
            else:
                out.append(self.gen_cmp(st, sc, ctx, own, r))
        return out

    def fill_step(self, st, sc, ctx, own, r, step):
        rng, s = self.rng, self.s
        if step == ("filter",):
            return ("filter", self.gen_clauses(st, sc, ctx, own, r, 1, rng.choice([1, 1, 2, 3])))
        if step == ("sort",):
            if r[1] == "OBJECT" and r[2] is not None:
                keys = [p for p, t in self.paths(r[2], False, 1) if not t[0] and t[1] != "OBJECT"]
                rng.shuffle(keys)
                return ("sort", [list(k) for k in keys[:rng.choice([1, 1, 2])]])
            return ("sort", [[]])
        return step

    # ---- one application in scope sc (None if nothing fits)
    def gen_app(self, st, sc, ctx, own, want_obj, target=None, prefer=None):
        rng = self.rng
        targets = [x for x in st.visible(sc) if not x["loop"] and not any(prefix(t, sc) for t in x["trav"])]
        if target is not None:
            targets = [x for x in targets if x is target]
        rng.shuffle(targets)
        srcs = self.sources(st, sc, ctx, own)
        for e in targets:
            L = e["type"]
            null = (not e["assigned"]) and e["null"]
            cands = []
            allowed = {}
            for pl_ in (False, True):
                for it_ in ("STRING", "NUMERIC", "BOOLEAN", "OBJECT"):
                    ms_ = [m for m in METHODS if combine(L, m, (pl_, it_, None), null)]
                    if ms_:
                        allowed[(pl_, it_)] = ms_
            for src, r in srcs:
                for step, rt in self.steps_for(r):
                    if rt is None:
                        continue
                    ms = allowed.get((rt[0], rt[1]))
                    if not ms:
                        continue
                    ok, nt = merge_obj(L, rt)
                    if not ok:
                        continue
                    w = want_obj.get(id(e))
                    if w is not None and L[1] == "OBJECT" and rt[2] != w:
                        continue
                    cands.append((src, r, step, rt, ms))
            if not cands:
                continue
            # spread over step kinds and source routes rather than over the (many) promise paths
            kinds = {}
            for c in cands:
                k = ((c[2][0] if c[2] else "none"), c[0][0], bool(c[0][2]))
                kinds.setdefault(k, []).append(c)
            ks = sorted(kinds)
            if prefer is not None and [k for k in ks if k[0] == prefer]:
                ks = [k for k in ks if k[0] == prefer]
            src, r, step, rt, ms = rng.choice(kinds[rng.choice(ks)])
            step = self.fill_step(st, sc, ctx, own, r, step)
            e["assigned"] = True
            e["type"] = merge_obj(L, rt)[1]
            return {"src": src, "step": step, "method": rng.choice(ms), "to": e["name"]}
        return None

    # ---- traversals
    def gen_trav(self, st, parent, idx, depth, ctx, own, ctx_names, want_obj, taken, force_src=None, n_apps=None):
        rng = self.rng
        sc = parent + (idx,)
        if force_src is not None:
            src, t = force_src
        else:
            cands = [(src, t) for src, t in self.sources(st, parent, ctx, own) if t[0] and json.dumps(src) not in taken]
            if not cands:
                return None
            by = {}
            for c in cands:
                by.setdefault((c[0][0], bool(c[0][2])), []).append(c)
            src, t = rng.choice(by[rng.choice(sorted(by))])
        taken.add(json.dumps(src))
        if src[0] == "V":
            e = st.get(src[1], sc)
            if e is not None:
                e["trav"].append(sc)
        as_ = self.fresh_name(st, sc, ctx_names)
        st.declare(sc, as_, (False, t[1], t[2]), assigned=True, loop=True)
        tr = {"src": src, "as": as_, "vars": [], "trav": [], "apply": []}
        for _ in range(rng.choice([0, 0, 1, 2])):
            d = self.rand_decl(self.fresh_name(st, sc, ctx_names))
            tr["vars"].append(d)
            st.declare(sc, d["name"], decl_type(d["type"]), null=(d["init"] == "SNull"))
        if depth < 3:
            sub_taken = set()
            for j in range(rng.choice([0, 0, 1, 1, 2])):
                sub = self.gen_trav(st, sc, len(tr["trav"]), depth + 1, ctx, own, ctx_names, want_obj, sub_taken)
                if sub is not None:
                    tr["trav"].append(sub)
        for _ in range(rng.choice([0, 1, 1, 2, 3]) if n_apps is None else n_apps):
            a = self.gen_app(st, sc, ctx, own, want_obj)
            if a is not None:
                tr["apply"].append(a)
        return tr

    def gen_wide(self, st, pl, ctx, own, ctx_names, want_obj, taken, body_apps=(0, 1)):
        """12 sibling traversals over list variables: indices >= 10; the variable traversed by traversal 1 is
        assigned inside traversal 10 or 11 (scope "0.10" is not nested in scope "0.1")."""
        rng = self.rng
        lists = []
        for k in range(12 - len(pl["trav"])):
            ty = rng.choice(["STRING_LIST", "NUMERIC_LIST", "BOOLEAN_LIST"])
            d = {"name": self.pool.pop(), "type": ty, "init": rng.choice(LEGAL_INIT[ty])}
            pl["vars"].append(d)
            lists.append(st.declare((), d["name"], decl_type(ty)))
        for e in lists:
            i = len(pl["trav"])
            tr = self.gen_trav(st, (), i, 3, ctx, own, ctx_names, want_obj, taken, force_src=(("V", e["name"], []), e["type"]),
                               n_apps=rng.choice(body_apps))
            pl["trav"].append(tr)
            src1 = pl["trav"][1]["src"] if len(pl["trav"]) > 1 else None
            first = st.get(src1[1], ()) if src1 is not None and src1[0] == "V" and not src1[2] else None
            if i >= 10 and first is not None and rng.random() < 0.8:
                a = self.gen_app(st, (i,), ctx, own, want_obj, target=first)
                if a is not None:
                    tr["apply"].append(a)

    # ---- a whole pipeline on promise pr (None if it has no attribute a pipeline could write)
    def gen_pipeline(self, pr, pid_, force_attrs=()):
        rng, s = self.rng, self.s
        own = pr["id"]
        ctx = pr["ctx"][1] if pr["ctx"] is not None else None
        ctx_names = set(thread_vars(s, ctx))
        for gid in chain(s, ctx):
            ctx_names.add(find(s["groups"], gid)["var"])
        T = find(s["otypes"], pr["type"][1])
        compared = compared_attrs(s, own)
        eligible = [a for a in T["attrs"] if a["name"] not in compared or a["name"] in force_attrs]
        if not eligible:
            return None
        rng.shuffle(eligible)
        targets = [a for a in eligible if a["name"] in force_attrs]
        targets += [a for a in eligible if a["name"] not in force_attrs][:rng.choice([1, 1, 2, 3])]
        pl = {"id": pid_, "name": 700 + pid_, "promise": ("promise", own), "vars": [], "trav": [], "apply": [], "out": []}
        st = Store()
        want_obj = {}
        outs = []
        for a in targets:
            t = attr_type(a)
            d = self.rand_decl(self.pool.pop(), ty_str(t))
            pl["vars"].append(d)
            e = st.declare((), d["name"], decl_type(d["type"]), null=(d["init"] == "SNull"))
            if t[1] == "OBJECT":
                want_obj[id(e)] = t[2]
            outs.append((e, a, t))
        for _ in range(rng.choice([0, 1, 2, 3])):
            d = self.rand_decl(self.pool.pop())
            pl["vars"].append(d)
            st.declare((), d["name"], decl_type(d["type"]), null=(d["init"] == "SNull"))
        rng.shuffle(pl["vars"])
        taken = set()
        for i in range(rng.choice([0, 1, 1, 2, 3])):
            tr = self.gen_trav(st, (), len(pl["trav"]), 1, ctx, own, ctx_names, want_obj, taken)
            if tr is not None:
                pl["trav"].append(tr)
        if rng.random() < 0.12:
            self.gen_wide(st, pl, ctx, own, ctx_names, want_obj, taken)
        # object-typed outputs must have received an object of the attribute's type
        for e, a, t in outs:
            if t[1] == "OBJECT" and e["type"][2] is None:
                app = self.gen_app(st, (), ctx, own, want_obj, target=e)
                if app is not None:
                    pl["apply"].append(app)
        for k in range(rng.choice([0, 1, 2, 3, 4])):
            app = self.gen_app(st, (), ctx, own, want_obj, prefer=rng.choice([None, "filter", "agg", "select", "sort", "none"]))
            if app is not None:
                pl["apply"].append(app)
        for e, a, t in outs:
            if e["type"] == t:
                pl["out"].append((e["name"], a["name"]))
        if not pl["out"]:
            return None
        # more outputs from variables that happen to fit another attribute
        for x in st.visible(()):
            for a in eligible:
                if rng.random() < 0.2 and attr_type(a) == x["type"] and (x["name"], a["name"]) not in pl["out"]:
                    pl["out"].append((x["name"], a["name"]))
        for _, attr in pl["out"]:
            make_unsettable(s, own, attr)
        return pl


def add_pipelines(b, rng, n=None, force=None):
    """Extend the built scenario b.s with 0-2 conformant pipelines (s["pipelines"])."""
    s = b.s
    s.setdefault("pipelines", [])
    g = PipeGen(b, rng)
    n = rng.choice([0, 1, 1, 1, 2, 2]) if n is None else n
    proms = [p for p in s["promises"] if p["id"] in b.creator and not any(pl["promise"][1] == p["id"] for pl in s["pipelines"])]
    # threaded promises first, half of the time
    rng.shuffle(proms)
    if rng.random() < 0.5:
        proms.sort(key=lambda p: p["ctx"] is None)
    for p in proms:
        if len(s["pipelines"]) >= n:
            break
        pid_ = max([pl["id"] for pl in s["pipelines"]] + [-1]) + 1 + rng.randrange(3)
        for _ in range(3):
            pl = g.gen_pipeline(p, pid_)
            if pl is not None:
                s["pipelines"].append(pl)
                break
    return s


def gen_valid_p(rng, threads=False, n_actions=None, n_pipes=None):
    for _ in range(30):
        s, b = S.gen_valid(rng, n_actions=n_actions or rng.choice([2, 3, 4, 5, 6, 8]), threads=threads, builder=True)
        add_pipelines(b, rng, n=n_pipes)
        if not S.has_duplicate_composite(s):
            return s, b
    raise RuntimeError("could not generate a scenario")


# ----------------------------------------------------------------------------------------------- rendering
def r_path(R, head, path):
    return ".".join([head] + [R.attr_name(n) for n in path])


def r_src(R, src):
    if src[0] == "P":
        # (a source that names an ACTION - wrong kind - is spelled the way operands reach the action's object)
        return r_path(R, R.ref(src[1]) + (".object_promise" if src[1][0] == "action" else ""), src[2])
    if src[0] == "V":
        return r_path(R, R.var_name(src[1]), src[2])
    return r_path(R, "$_object", src[1])


def r_fop(R, o):
    if o[0] == "lit":
        return lit_value(o[1], o[2])
    if o[0] == "item":
        txt = r_path(R, "$_item", o[2])
        return txt if o[1] else {"ref": txt}
    if o[0] == "var":
        out = {"ref": r_path(R, R.var_name(o[1]), o[2])}
    elif o[0] == "prom":
        out = {"ref": r_path(R, R.ref(o[1]), o[2])}
    else:
        out = {"ref": r_path(R, "$_object", o[1])}
    if R.descriptive and R.rng.random() < 0.3:
        out["context"] = R.rng.choice(["TEMPLATE", "RUNTIME"])
    return out


def r_clauses(R, cs):
    out = []
    for c in cs:
        if c[0] == "cmp":
            out.append({"left": r_fop(R, c[1]), "operator": c[2], "right": r_fop(R, c[3])})
        else:
            out.append({"where": r_clauses(R, c[1]), "gate_type": R.rng.choice(S.GATES)})
    # filter clauses are order-free
    return R.maybe_shuffle(out)


def r_var(R, d):
    return {"name": R.var_name(d["name"]), "type": d["type"], "initial": lit_value(d["init"], 3)}


def r_app(R, a):
    out = {"from": r_src(R, a["src"]), "method": a["method"], "to": R.var_name(a["to"])}
    st = a["step"]
    if st is not None:
        if st[0] == "agg":
            out["aggregate"] = {"field": "$_item" if st[1] is None else ".".join(R.attr_name(n) for n in st[1]), "operator": st[2]}
        elif st[0] == "filter":
            out["filter"] = {"where": r_clauses(R, st[1])}
            if len(st[1]) > 1:
                out["filter"]["gate_type"] = R.rng.choice(S.GATES)
        elif st[0] == "sort":
            out["sort"] = [{"field": (".".join(R.attr_name(n) for n in k) if k else "$_item"), "order": R.rng.choice(["ASC", "DESC"])} for k in st[1]]
        else:
            out["select"] = ".".join(R.attr_name(n) for n in st[1])
    return out


def r_trav(R, t):
    fe = {"as": R.var_name(t["as"])}
    if t["vars"] or R.rng.random() < 0.5:
        fe["variables"] = R.maybe_shuffle([r_var(R, d) for d in t["vars"]])
    if t["trav"] or R.rng.random() < 0.5:
        fe["traverse"] = [r_trav(R, x) for x in t["trav"]]
    fe["apply"] = [r_app(R, a) for a in t["apply"]]
    return {"ref": r_src(R, t["src"]), "foreach": fe}


def render_pipelines(R, doc):
    pls = R.s.get("pipelines")
    if not pls:
        return
    out = []
    for pl in pls:
        e = {"id": pl["id"], "name": "pipeline %d" % pl["name"], "object_promise": R.ref(pl["promise"]),
             "variables": R.maybe_shuffle([r_var(R, d) for d in pl["vars"]])}
        if pl["trav"] or R.rng.random() < 0.5:
            e["traverse"] = [r_trav(R, t) for t in pl["trav"]]
        if pl["apply"] or R.rng.random() < 0.5:
            e["apply"] = [r_app(R, a) for a in pl["apply"]]
        e["output"] = R.maybe_shuffle([{"from": R.var_name(v), "to": R.attr_name(a)} for v, a in pl["out"]])
        if R.descriptive and R.rng.random() < 0.5:
            e["context"] = R.rng.choice(["TEMPLATE", "RUNTIME"])
        out.append(e)
    doc["pipelines"] = R.maybe_shuffle(out)


if render_pipelines not in S.RENDER_HOOKS:
    S.RENDER_HOOKS.append(render_pipelines)


# ----------------------------------------------------------------------------------------------- Coq printing
def cq_src(src):
    if src[0] == "P":
        return "(PProm %s %s)" % (cq_ref(src[1]), cq_nats(src[2]))
    if src[0] == "V":
        return "(PVar %d %s)" % (src[1], cq_nats(src[2]))
    return "(PLocal %s)" % cq_nats(src[1])


def cq_fop(o):
    if o[0] == "lit":
        return "(FLit (Lit %s %d))" % (o[1], o[2])
    if o[0] == "item":
        return "(FItem %s %s)" % ("true" if o[1] else "false", cq_nats(o[2]))
    if o[0] == "var":
        return "(FVar %d %s)" % (o[1], cq_nats(o[2]))
    if o[0] == "prom":
        return "(FProm %s %s)" % (cq_ref(o[1]), cq_nats(o[2]))
    return "(FLocal %s)" % cq_nats(o[1])


def cq_clause(c):
    if c[0] == "cmp":
        return "(FCmp %s %s %s)" % (cq_fop(c[1]), c[2], cq_fop(c[3]))
    return "(FNest %s)" % cq_list(cq_clause(x) for x in c[1])


def cq_step(st):
    if st is None:
        return "StNone"
    if st[0] == "agg":
        return "(StAgg %s A_%s)" % ("AItem" if st[1] is None else "(AField %s)" % cq_nats(st[1]), st[2])
    if st[0] == "filter":
        return "(StFilter %s)" % cq_list(cq_clause(c) for c in st[1])
    if st[0] == "sort":
        return "(StSort %s)" % cq_list(cq_nats(k) for k in st[1])
    return "(StSelect %s)" % cq_nats(st[1])


def cq_var(d):
    return "(Build_pvardecl %d %s %s)" % (d["name"], d["type"], d["init"])


def cq_app(a):
    return "(Build_papply %s %s M_%s %d)" % (cq_src(a["src"]), cq_step(a["step"]), a["method"], a["to"])


def cq_trav(t):
    return "(Trav %s %d %s %s %s)" % (cq_src(t["src"]), t["as"], cq_list(cq_var(d) for d in t["vars"]),
                                      cq_list(cq_trav(x) for x in t["trav"]), cq_list(cq_app(a) for a in t["apply"]))


def cq_pipeline(pl):
    return "(Build_pipeline %d %d %s %s %s %s %s)" % (
        pl["id"], pl["name"], cq_ref(pl["promise"]), cq_list(cq_var(d) for d in pl["vars"]),
        cq_list(cq_trav(t) for t in pl["trav"]), cq_list(cq_app(a) for a in pl["apply"]),
        cq_list("(%d, %d)" % (v, a) for v, a in pl["out"]))


def to_coq_p(s):
    return "(Build_pschema %s %s)" % (S.to_coq(s), cq_list(cq_pipeline(pl) for pl in s.get("pipelines", [])))


COQ_HEADER_P = """From Coq Require Import List Bool Arith.
From OIS Require Import Base.Types Base.PipeTypes Spec.Compare Model.Schema Model.Rules Model.PipeRules Gen.Tables.
Import ListNotations.
"""


def coq_cases_file_p(scenarios, impl_accepts):
    """Same contract as scenario.coq_cases_file, for schemas with pipelines (conforms_p_kf / conforms_p)."""
    lines = [COQ_HEADER_P, "Definition cases : list (pschema * bool) := ["]
    lines.append(";\n".join("  (%s, %s)" % (to_coq_p(s), "true" if acc else "false") for s, acc in zip(scenarios, impl_accepts)))
    lines.append("].")
    lines.append("Fixpoint failing (i : nat) (l : list (pschema * bool)) : list nat :=")
    lines.append("  match l with [] => [] | (s, b) :: r => (if Bool.eqb (if has_cycle (base s) then false else conforms_p_kf default_value_table s) b then [] else [i]) ++ failing (S i) r end.")
    lines.append("Fixpoint kfhits (i : nat) (l : list (pschema * bool)) : list nat :=")
    lines.append("  match l with [] => [] | (s, b) :: r => (if has_cycle (base s) then [] else if Bool.eqb (conforms_p_kf default_value_table s) (conforms_p default_value_table s) then [] else [i]) ++ kfhits (S i) r end.")
    lines.append("Eval vm_compute in (failing 0 cases).")
    lines.append("Eval vm_compute in (kfhits 0 cases).")
    return "\n".join(lines) + "\n"


# ----------------------------------------------------------------------------------------------- mutators
def fop_type(s, ctx, own, st, sc, r, o):
    """Type (in the ty vocabulary) of a filter operand; None when it does not resolve."""
    if o[0] == "lit":
        return SHAPE_TY.get(o[1])
    if o[0] == "item":
        if not o[2]:
            return ty_str((False, r[1], r[2]))
        t = walk(s, r[2], False, o[2]) if r[2] is not None else None
    elif o[0] == "var":
        t = var_ref_type(s, ctx, st, sc, o[1], o[2])
    elif o[0] == "prom":
        t = promise_type(s, ctx, o[1][1], o[2]) if o[1][0] == "promise" and o[1][1] != own else None
    else:
        t = None
    return None if t is None else ty_str(t)


def _pipes(rng, s, b):
    """The scenario's pipelines (added now when the scenario was generated without)."""
    if not s.get("pipelines"):
        add_pipelines(b, rng, n=rng.choice([1, 1, 2]))
    return list(s.get("pipelines") or [])


def _pick_instr(rng, s, b, kind, pred=None):
    """A random (pipeline, instr, store before, info, final store) of the given kind."""
    cands = []
    for pl in _pipes(rng, s, b):
        steps, final = replay(s, pl)
        for ins, before, info in steps:
            if ins[0] == kind and (pred is None or pred(pl, ins, before, info)):
                cands.append((pl, ins, before, info, final))
    return rng.choice(cands) if cands else None


def _kf_cmp(l, o, r):
    return l == r == "STRING" and o in ("CONTAINS", "DOES_NOT_CONTAIN")


# ---- C08
@M.mutator("C08")
def p_initial_wrong_type(rng, s, b):
    c = _pick_instr(rng, s, b, "decl")
    if c is None:
        return None
    d = c[1][2]
    d["init"] = rng.choice([sh for sh in ALL_SHAPES if sh not in LEGAL_INIT[d["type"]]])
    return "initial value %s for a %s variable (scope %s)" % (d["init"], d["type"], list(c[1][1]))


@M.mutator("C08")
def p_null_list(rng, s, b):
    c = _pick_instr(rng, s, b, "decl", lambda pl, ins, st, info: ins[2]["type"].endswith("_LIST"))
    if c is None:
        return None
    c[1][2]["init"] = "SNull"
    return "list variable initialised to null (scope %s)" % list(c[1][1])


def _app_state(info):
    r, rt, e = info
    if r is None or rt is None or e is None:
        return None
    return e["type"], rt, (not e["assigned"]) and e["null"]


@M.mutator("C08")
def p_method_not_allowed(rng, s, b):
    c = _pick_instr(rng, s, b, "app", lambda pl, ins, st, info: _app_state(info) is not None)
    if c is None:
        return None
    L, rt, null = _app_state(c[3])
    bad = [m for m in METHODS if not combine(L, m, rt, null)]
    c[1][2]["method"] = rng.choice(bad)
    return "method %s for %s <- %s (null-initialised and unassigned: %s)" % (c[1][2]["method"], ty_str(L), ty_str(rt), null)


@M.mutator("C08")
def p_set_not_first(rng, s, b):
    c = _pick_instr(rng, s, b, "app", lambda pl, ins, st, info: _app_state(info) is not None and not _app_state(info)[2])
    if c is None:
        return None
    c[1][2]["method"] = "SET"
    return "SET on a variable that is not null-initialised or was already assigned"


@M.mutator("C08")
def p_first_not_set(rng, s, b):
    if rng.random() < 0.5:
        c = _pick_instr(rng, s, b, "app", lambda pl, ins, st, info: _app_state(info) is not None and _app_state(info)[2])
        if c is not None:
            L, rt, _ = _app_state(c[3])
            ms = [m for m in METHODS if combine(L, m, rt, False)] or [m for m in METHODS if m != "SET"]
            c[1][2]["method"] = rng.choice(ms)
            return "first operation on a null-initialised variable is %s" % c[1][2]["method"]
    # a variable whose first operation is not SET becomes null-initialised
    c = _pick_instr(rng, s, b, "app", lambda pl, ins, st, info: _app_state(info) is not None and not info[2]["assigned"]
                    and not info[2]["null"] and not info[2]["type"][0])
    if c is None:
        return None
    pl, ins, before, info, final = c
    for k, sc, d, top in flatten(pl):
        if k == "decl" and tuple(sc) == tuple(info[2]["scope"]) and d["name"] == info[2]["name"]:
            d["init"] = "SNull"
            return "variable made null-initialised although its first operation is %s" % ins[2]["method"]
    return None


@M.mutator("C08")
def p_agg_unfit(rng, s, b):
    if rng.random() < 0.75:
        c = _pick_instr(rng, s, b, "app", lambda pl, ins, st, info: ins[2]["step"] is not None and ins[2]["step"][0] == "agg" and info[0] is not None)
        if c is not None:
            a, r = c[1][2], c[3][0]
            f = r if a["step"][1] is None else walk(s, r[2], r[0], a["step"][1])
            if f is not None:
                bad = [op for op in AGGS if op not in AGG_OK.get(f[1], [])]
                a["step"] = ("agg", a["step"][1], rng.choice(bad))
                return "aggregation operator %s over %s items" % (a["step"][2], f[1])
    c = _pick_instr(rng, s, b, "app", lambda pl, ins, st, info: ins[2]["step"] is None and info[0] is not None and not info[0][0])
    if c is None:
        return None
    c[1][2]["step"] = ("agg", None, rng.choice(AGGS))
    return "aggregation of a non-list source"


def _cmp_positions(clauses, depth=1, out=None):
    out = [] if out is None else out
    for i, c in enumerate(clauses):
        if c[0] == "cmp":
            out.append((clauses, i, depth))
        else:
            _cmp_positions(c[1], depth + 1, out)
    return out


@M.mutator("C08")
def p_filter_ill_typed(rng, s, b):
    c = _pick_instr(rng, s, b, "app", lambda pl, ins, st, info: ins[2]["step"] is not None and ins[2]["step"][0] == "filter" and info[0] is not None)
    if c is None:
        return None
    pl, ins, before, info, final = c
    ctx, own, sc, r = pipe_ctx(s, pl), pl["promise"][1], ins[1], info[0]
    pos = _cmp_positions(ins[2]["step"][1])
    # over-sample nested and later clauses
    pos.sort(key=lambda p: (p[2], p[1]))
    rng.shuffle(pos)
    pos.sort(key=lambda p: -(p[2] > 1 or p[1] > 0) if rng.random() < 0.7 else 0)
    for lst, i, depth in pos:
        _, l, op, rr = lst[i]
        tl, tr = fop_type(s, ctx, own, before, sc, r, l), fop_type(s, ctx, own, before, sc, r, rr)
        if tl is None or tr is None:
            continue
        bad = [o for o in OPS if not py_cmp(tl, o, tr) and not _kf_cmp(tl, o, tr)]
        if bad and rng.random() < 0.6:
            lst[i] = ("cmp", l, rng.choice(bad), rr)
            return "filter clause at depth %d position %d: %s %s %s" % (depth, i, tl, lst[i][2], tr)
        side = 1 if l[0] == "lit" else (3 if rr[0] == "lit" else None)
        if side is not None:
            other = tr if side == 1 else tl
            shapes = [sh for sh, t in SHAPE_TY.items() if not (py_cmp(t, op, other) if side == 1 else py_cmp(other, op, t))
                      and not _kf_cmp(t, op, other)]
            if shapes:
                new = list(lst[i])
                new[side] = ("lit", rng.choice(shapes), b.fresh())
                lst[i] = tuple(new)
                return "filter clause at depth %d position %d: literal of the wrong type" % (depth, i)
        if bad:
            lst[i] = ("cmp", l, rng.choice(bad), rr)
            return "filter clause at depth %d position %d: %s %s %s" % (depth, i, tl, lst[i][2], tr)
    return None


@M.mutator("C08")
def p_filter_ill_typed_beside_group(rng, s, b):
    """An ill-typed comparison that is a SIBLING of a nested condition group in the same where array (the group is
    created from two copies of a well-typed clause when the filter has none)."""
    c = _pick_instr(rng, s, b, "app", lambda pl, ins, st, info: ins[2]["step"] is not None and ins[2]["step"][0] == "filter" and info[0] is not None)
    if c is None:
        return None
    pl, ins, before, info, final = c
    ctx, own, sc, r = pipe_ctx(s, pl), pl["promise"][1], ins[1], info[0]
    clauses = ins[2]["step"][1]
    if not any(cl[0] == "cmp" for cl in clauses):
        return None
    if not any(cl[0] == "nest" for cl in clauses):
        base = rng.choice([cl for cl in clauses if cl[0] == "cmp"])
        clauses.insert(rng.randrange(len(clauses) + 1), ("nest", [base, base]))
    idx = [i for i, cl in enumerate(clauses) if cl[0] == "cmp"]
    rng.shuffle(idx)
    for i in idx:
        _, l, op, rr = clauses[i]
        tl, tr = fop_type(s, ctx, own, before, sc, r, l), fop_type(s, ctx, own, before, sc, r, rr)
        if tl is None or tr is None:
            continue
        bad = [o for o in OPS if not py_cmp(tl, o, tr) and not _kf_cmp(tl, o, tr)]
        if bad:
            clauses[i] = ("cmp", l, rng.choice(bad), rr)
            return "ill-typed filter clause at position %d beside a nested condition group: %s %s %s" % (i, tl, clauses[i][2], tr)
    return None


@M.mutator("C08")
def p_nested_list_through_variable(rng, s, b):
    """An application reads a path from a variable that holds a LIST of objects; the path is changed to one that ends
    in a list-valued attribute / edge collection of the same item type: a list of lists, which has no type (typed flat
    it would be exactly the type the application had before)."""
    def pred(pl, ins, st, info):
        src = ins[2]["src"]
        if src[0] != "V" or not src[2]:
            return False
        e = st.get(src[1], ins[1])
        return e is not None and e["type"][0] and e["type"][1] == "OBJECT" and e["type"][2] is not None
    c = _pick_instr(rng, s, b, "app", pred)
    if c is None:
        return None
    pl, ins, before, info, final = c
    src = ins[2]["src"]
    e = before.get(src[1], ins[1])
    tid = e["type"][2]
    cur = walk(s, tid, True, src[2])
    if cur is None:
        return None
    alts = [pp for pp, t in all_paths(s, tid, False) if t is not None and t[0] and t[1] == cur[1] and t[2] == cur[2]
            and walk(s, tid, True, pp) is None]
    if not alts:
        return None
    ins[2]["src"] = ("V", src[1], list(rng.choice(alts)))
    return "application reads a list-valued path from a variable that holds a list of objects (list of lists)"


@M.mutator("C08")
def p_output_type_mismatch(rng, s, b):
    pls = _pipes(rng, s, b)
    if not pls:
        return None
    pl = rng.choice(pls)
    steps, final = replay(s, pl)
    k = rng.randrange(len(pl["out"]))
    v, attr = pl["out"][k]
    e = final.get(v, ())
    if e is None:
        return None
    mode = rng.random()
    if e["type"][1] == "OBJECT" and mode < 0.5:
        # the variable never receives an object: its object type stays unknown
        def strip(apps):
            apps[:] = [a for a in apps if a["to"] != v]
        strip(pl["apply"])
        def rec(t):
            strip(t["apply"])
            for x in t["trav"]:
                rec(x)
        for t in pl["trav"]:
            rec(t)
        return "object-typed output variable without an object type (attribute expects one)"
    others = [x for x in final.visible(()) if x["type"] != e["type"]]
    if others and mode < 0.75:
        x = rng.choice(others)
        pl["out"][k] = (x["name"], attr)
        return "output of a %s (object type %s) variable to a %s attribute" % (ty_str(x["type"]), x["type"][2], ty_str(e["type"]))
    T = find(s["otypes"], find(s["promises"], pl["promise"][1])["type"][1])
    attrs = [a for a in T["attrs"] if attr_type(a) != e["type"] and a["name"] not in compared_attrs(s, pl["promise"][1])]
    if not attrs:
        return None
    a = rng.choice(attrs)
    pl["out"][k] = (v, a["name"])
    make_unsettable(s, pl["promise"][1], a["name"])
    return "output of a %s variable to an attribute of type %s" % (ty_str(e["type"]), ty_str(attr_type(a)))


@M.mutator("C08")
def p_step_on_wrong_source(rng, s, b):
    c = _pick_instr(rng, s, b, "app", lambda pl, ins, st, info: ins[2]["step"] is None and info[0] is not None
                    and (not info[0][0] or info[0][2] is None))
    if c is None:
        return None
    a, r = c[1][2], c[3][0]
    if not r[0] and rng.random() < 0.6:
        a["step"] = rng.choice([("sort", [[]]), ("filter", [("cmp", ("item", False, []), "EQUALS", ("lit", "SNull", b.fresh()))])])
        return "%s of a non-list source" % a["step"][0]
    if r[2] is None:
        a["step"] = ("select", [rng.randrange(12)])
        return "select from a source that is not an object"
    return None


# ---- C01 inside pipelines (owner tag C01P: only the pipeline family of checks/c01.py draws them)
def _other_promise(rng, s, own, ctx):
    c = [p for p in s["promises"] if p["id"] != own and p["type"][0] == "type" and promise_type(s, ctx, p["id"], []) is not None]
    return rng.choice(c) if c else None


@M.mutator("C01P")
def p_filter_operand_undeclared_path(rng, s, b):
    """The non-$_item operand of a filter clause is a global reference whose path leaves the declared attributes
    (or names a promise that does not exist); the clause sits at any position, most often AFTER a nested condition
    group of the same where array (created from two copies of a clause when the filter has none)."""
    c = _pick_instr(rng, s, b, "app", lambda pl, ins, st, info: ins[2]["step"] is not None and ins[2]["step"][0] == "filter" and info[0] is not None)
    if c is None:
        return None
    pl, ins, before, info, final = c
    ctx, own = pipe_ctx(s, pl), pl["promise"][1]
    clauses = ins[2]["step"][1]
    if not any(cl[0] == "cmp" for cl in clauses):
        return None
    where = "as it stands"
    if rng.random() < 0.7:
        base = rng.choice([cl for cl in clauses if cl[0] == "cmp"])
        first_cmp = min(i for i, cl in enumerate(clauses) if cl[0] == "cmp")
        if not any(cl[0] == "nest" for cl in clauses[:first_cmp + 1]):
            clauses.insert(rng.randrange(first_cmp + 1), ("nest", [base, base] if rng.random() < 0.7 else [base, ("nest", [base, base])]))
        where = "after a nested group"
    pos = [(lst, i, d) for lst, i, d in _cmp_positions(clauses)]
    if where == "after a nested group":
        pos = [(lst, i, d) for lst, i, d in pos if lst is clauses and any(cl[0] == "nest" for cl in lst[:i])]
    rng.shuffle(pos)
    other = _other_promise(rng, s, own, ctx)
    for lst, i, depth in pos:
        _, l, op, rr = lst[i]
        for keep, side in ((l, 3), (rr, 1)):
            if keep[0] != "item":
                continue
            cur = rr if side == 3 else l
            if cur[0] == "prom":
                o = ("prom", cur[1], list(cur[2]) + [770 + rng.randrange(20)])
                what = "path extended by an undeclared attribute"
            elif other is None:
                continue
            elif rng.random() < 0.75:
                o = ("prom", ("promise", other["id"]), [770 + rng.randrange(20)])
                what = "undeclared attribute of a declared promise"
            else:
                o = ("prom", ("promise", 880 + rng.randrange(20)), [])
                what = "promise that does not exist"
            lst[i] = ("cmp", keep, op, o) if side == 3 else ("cmp", o, op, keep)
            return "filter clause at depth %d position %d (%s): %s" % (depth, i, where, what)
    return None


@M.mutator("C01P")
def p_source_undeclared_path(rng, s, b):
    """The source of an application or of a traversal is a promise path that leaves the declared attributes, or a
    promise that does not exist."""
    kind = rng.choice(["app", "trav"])
    c = _pick_instr(rng, s, b, kind, lambda pl, ins, st, info: (ins[2]["src"] if kind == "app" else ins[2]["src"])[0] == "P")
    if c is None:
        return None
    node = c[1][2]
    src = node["src"]
    if rng.random() < 0.8:
        node["src"] = ("P", src[1], list(src[2]) + [770 + rng.randrange(20)])
        return "%s source path extended by an undeclared attribute" % kind
    node["src"] = ("P", ("promise", 880 + rng.randrange(20)), list(src[2]))
    return "%s source names a promise that does not exist" % kind


@M.mutator("C01P")
def p_source_through_action(rng, s, b):
    """The source of a traversal or an application names an ACTION on the promise it read (`action:A.object_promise
    <path>`): the same object and the same type, but a reference of the wrong kind for the position."""
    kind = rng.choice(["trav", "trav", "app"])
    c = _pick_instr(rng, s, b, kind, lambda pl, ins, st, info: ins[2]["src"][0] == "P" and ins[2]["src"][1][0] == "promise"
                    and any(a["promise"] == ins[2]["src"][1] for a in s["actions"]))
    if c is None:
        return None
    node = c[1][2]
    src = node["src"]
    acts = [a for a in s["actions"] if a["promise"] == src[1]]
    a = rng.choice(acts)
    node["src"] = ("P", ("action", a["id"]), list(src[2]))
    return "%s source reaches its promise through action %d" % (kind, a["id"])


# ---- C09
def _invisible(final, before, sc, ctx_names):
    return [x for x in final.e if not prefix(x["scope"], sc) and final.get(x["name"], sc) is None and x["name"] not in ctx_names]


def _ctx_names(s, pl):
    return [find(s["groups"], g)["var"] for g in chain(s, pipe_ctx(s, pl))]


@M.mutator("C09")
def p_read_out_of_scope(rng, s, b):
    c = _pick_instr(rng, s, b, "app", lambda pl, ins, st, info: bool(_invisible(replay(s, pl)[1], st, ins[1], _ctx_names(s, pl))))
    if c is None:
        return None
    pl, ins, before, info, final = c
    x = rng.choice(_invisible(final, before, ins[1], _ctx_names(s, pl)))
    if rng.random() < 0.3 and ins[2]["step"] is not None and ins[2]["step"][0] == "filter":
        pos = _cmp_positions(ins[2]["step"][1])
        lst, i, _ = rng.choice(pos)
        _, l, op, rr = lst[i]
        lst[i] = ("cmp", l, op, ("var", x["name"], [])) if l[0] == "item" and not l[1] else ("cmp", ("var", x["name"], []), op, rr)
        return "filter operand reads a variable declared in scope %s from scope %s" % (list(x["scope"]), list(ins[1]))
    ins[2]["src"] = ("V", x["name"], [])
    return "application in scope %s reads a variable declared in scope %s" % (list(ins[1]), list(x["scope"]))


@M.mutator("C09")
def p_write_out_of_scope(rng, s, b):
    c = _pick_instr(rng, s, b, "app", lambda pl, ins, st, info: bool(_invisible(replay(s, pl)[1], st, ins[1], _ctx_names(s, pl))))
    if c is None:
        return None
    pl, ins, before, info, final = c
    cands = _invisible(final, before, ins[1], _ctx_names(s, pl))
    # prefer a variable of the same type: only the scope is wrong
    same = [x for x in cands if info[2] is not None and x["type"] == info[2]["type"] and not x["loop"]]
    x = rng.choice(same or cands)
    ins[2]["to"] = x["name"]
    return "application in scope %s writes a variable declared in scope %s" % (list(ins[1]), list(x["scope"]))


@M.mutator("C09")
def p_undeclared_variable(rng, s, b):
    kind = rng.choice(["app", "app", "trav", "out"])
    c = _pick_instr(rng, s, b, kind)
    if c is None:
        return None
    pl, ins = c[0], c[1]
    n = 900 + rng.randrange(50)
    if kind == "out":
        k = pl["out"].index(ins[2])
        pl["out"][k] = (n, ins[2][1])
        return "output from an undeclared variable"
    if kind == "trav":
        ins[2]["src"] = ("V", n, [])
        return "traversal of an undeclared variable"
    if rng.random() < 0.5:
        ins[2]["src"] = ("V", n, [])
        return "application reads an undeclared variable"
    ins[2]["to"] = n
    return "application writes an undeclared variable"


@M.mutator("C09")
def p_output_not_toplevel(rng, s, b):
    pls = _pipes(rng, s, b)
    rng.shuffle(pls)
    for pl in pls:
        steps, final = replay(s, pl)
        inner = [x for x in final.e if x["scope"] != () and final.get(x["name"], ()) is None]
        if inner:
            x = rng.choice(inner)
            k = rng.randrange(len(pl["out"]))
            pl["out"][k] = (x["name"], pl["out"][k][1])
            return "output from a variable declared in traversal scope %s" % list(x["scope"])
    return None


@M.mutator("C09")
def p_redeclare_visible_name(rng, s, b):
    """A new variable declaration, or a loop variable, takes a name visible in its scope."""
    kind = rng.choice(["decl", "decl", "trav"])
    c = _pick_instr(rng, s, b, kind, lambda pl, ins, st, info: bool(st.visible(ins[1])))
    if c is None:
        return None
    pl, ins, before, info, final = c
    sc = ins[1]
    x = rng.choice(before.visible(sc))
    if kind == "trav":
        ins[2]["as"] = x["name"]
        return "loop variable of scope %s reuses the name of a variable of scope %s" % (list(sc), list(x["scope"]))
    holder = pl["vars"] if sc == () else None
    if holder is None:
        t = next(i[2] for i in flatten(pl) if i[0] == "trav" and i[1] == sc)
        holder = t["vars"]
    holder.insert(holder.index(ins[2]), {"name": x["name"], "type": rng.choice(VAR_TYPES[:3]), "init": "SNull"})
    return "variable declared in scope %s reuses the name of a variable of scope %s" % (list(sc), list(x["scope"]))


@M.mutator("C09")
def p_redeclare_thread_variable(rng, s, b):
    pls = [pl for pl in _pipes(rng, s, b) if _ctx_names(s, pl)]
    if not pls:
        return None
    pl = rng.choice(pls)
    name = rng.choice(_ctx_names(s, pl))
    travs = [i for i in flatten(pl) if i[0] == "trav"]
    mode = rng.random()
    if travs and mode < 0.4:
        t = rng.choice(travs)[2]
        t["vars"].append({"name": name, "type": rng.choice(VAR_TYPES[:3]), "init": "SNull"})
        return "variable declared inside a traversal reuses the name of a thread variable of the pipeline's context"
    if travs and mode < 0.7:
        rng.choice(travs)[2]["as"] = name
        return "loop variable reuses the name of a thread variable of the pipeline's context"
    pl["vars"].append({"name": name, "type": rng.choice(VAR_TYPES[:3]), "init": "SNull"})
    return "pipeline variable reuses the name of a thread variable of the pipeline's context"


@M.mutator("C09")
def p_assign_loop_variable(rng, s, b):
    c = _pick_instr(rng, s, b, "app", lambda pl, ins, st, info: any(x["loop"] for x in st.visible(ins[1])))
    if c is None:
        return None
    pl, ins, before, info, final = c
    x = rng.choice([x for x in before.visible(ins[1]) if x["loop"]])
    ins[2]["to"] = x["name"]
    return "application in scope %s assigns the loop variable of scope %s" % (list(ins[1]), list(x["scope"]))


@M.mutator("C09")
def p_assign_thread_variable(rng, s, b):
    c = _pick_instr(rng, s, b, "app", lambda pl, ins, st, info: bool(_ctx_names(s, pl)))
    if c is None:
        return None
    pl, ins = c[0], c[1]
    ins[2]["to"] = rng.choice(_ctx_names(s, pl))
    return "application assigns a thread variable of the pipeline's context"


@M.mutator("C09")
def p_assign_traversed_variable(rng, s, b):
    """Inside a traversal over a pipeline variable (or in a scope nested in it) the variable is assigned."""
    c = _pick_instr(rng, s, b, "trav", lambda pl, ins, st, info: ins[2]["src"][0] == "V" and not ins[2]["src"][2]
                    and st.get(ins[2]["src"][1], ins[1]) is not None and not st.get(ins[2]["src"][1], ins[1])["loop"])
    if c is None:
        return None
    pl, ins, before, info, final = c
    t, name = ins[2], ins[2]["src"][1]
    holders = [t]
    def rec(x):
        for y in x["trav"]:
            holders.append(y)
            rec(y)
    rec(t)
    h = rng.choice(holders)
    h["apply"].append({"src": ("V", t["as"], []), "step": None, "method": rng.choice(["APPEND", "PREPEND"]), "to": name})
    return "the variable a traversal iterates over is assigned inside that traversal%s" % (" (nested scope)" if h is not t else "")


OWN_KIND, OWN_LOCAL = None, None     # set by a family that wants every variant of p_read_own_object


@M.mutator("C09")
def p_read_own_object(rng, s, b):
    kind = OWN_KIND or rng.choice(["app", "app", "trav", "filter"])
    c = _pick_instr(rng, s, b, "app" if kind == "filter" else kind,
                    (lambda pl, ins, st, info: ins[2]["step"] is not None and ins[2]["step"][0] == "filter") if kind == "filter" else None)
    if c is None:
        return None
    pl, ins = c[0], c[1]
    own = pl["promise"][1]
    T = find(s["promises"], own)["type"][1]
    paths = [p for p, t in all_paths(s, T, False)] + [[]]
    lists = [p for p, t in all_paths(s, T, False) if t[0]]
    local = OWN_LOCAL if OWN_LOCAL is not None else rng.random() < 0.3
    if kind == "filter":
        lst, i, _ = rng.choice(_cmp_positions(ins[2]["step"][1]))
        _, l, op, rr = lst[i]
        o = ("local", rng.choice(paths)) if local else ("prom", ("promise", own), rng.choice(paths))
        lst[i] = ("cmp", l, op, o) if l[0] == "item" and not l[1] else ("cmp", o, op, rr)
        return "filter operand reads the object the pipeline writes (%s)" % o[0]
    if kind == "trav":
        if not lists:
            return None
        ins[2]["src"] = ("L", rng.choice(lists)) if local else ("P", ("promise", own), rng.choice(lists))
        return "traversal over the object the pipeline writes"
    ins[2]["src"] = ("L", rng.choice(paths)) if local else ("P", ("promise", own), rng.choice(paths))
    return "application reads the object the pipeline writes"


@M.mutator("C09")
def p_filter_reads_own_object(rng, s, b):
    """A filter clause (at any nesting level) compares $_item with a path on the object promise the pipeline itself
    writes, spelled as a global reference and TYPED so that reading the own object is the clause's only fault."""
    c = _pick_instr(rng, s, b, "app", lambda pl, ins, st, info: ins[2]["step"] is not None and ins[2]["step"][0] == "filter" and info[0] is not None)
    if c is None:
        return None
    pl, ins, before, info, final = c
    ctx, own, sc, r = pipe_ctx(s, pl), pl["promise"][1], ins[1], info[0]
    T = find(s["promises"], own)["type"][1]
    own_paths = [([], promise_type(s, ctx, own, []))] + [(pp, promise_type(s, ctx, own, pp)) for pp, _ in all_paths(s, T, False)]
    own_paths = [(pp, ty_str(t)) for pp, t in own_paths if t is not None]
    pos = _cmp_positions(ins[2]["step"][1])
    rng.shuffle(pos)
    for lst, i, depth in pos:
        _, l, op, rr = lst[i]
        for keep, side in ((l, 3), (rr, 1)):
            if keep[0] != "item":
                continue
            tk = fop_type(s, ctx, own, before, sc, r, keep)
            if tk is None:
                continue
            fits = [(pp, o2) for (pp, t2) in own_paths for o2 in OPS
                    if (py_cmp(tk, o2, t2) if side == 3 else py_cmp(t2, o2, tk)) and not _kf_cmp(tk, o2, t2)]
            if not fits:
                continue
            pp, o2 = rng.choice(fits)
            # ... spelled as a global reference or, a third of the time, through the local "$_object"
            o = ("prom", ("promise", own), list(pp)) if (rng.random() < 0.65 or not pp) else ("local", list(pp))
            lst[i] = ("cmp", keep, o2, o) if side == 3 else ("cmp", o, o2, keep)
            return "filter clause at depth %d compares $_item with the pipeline's own object (well typed)" % depth
    return None


@M.mutator("C09")
def p_write_settable_attribute(rng, s, b):
    pls = _pipes(rng, s, b)
    if not pls:
        return None
    # prefer a threaded action on the written promise; half of the time let it repeat its thread group's checkpoint
    # in its own depends_on (a legal, redundant spelling that takes another path through the collection pass)
    gdep = {g["id"]: g["dep"] for g in s["groups"]}
    pairs = [(pl, a) for pl in pls for a in s["actions"] if a["promise"] == pl["promise"]]
    threaded = [(pl, a) for (pl, a) in pairs if a["ctx"] is not None and gdep.get(a["ctx"][1]) is not None and a["dep"] in (None, gdep.get(a["ctx"][1]))]
    if threaded and rng.random() < 0.6:
        pl, a = rng.choice(threaded)
        if rng.random() < 0.6:
            a["dep"] = gdep[a["ctx"][1]]
    else:
        pl, a = rng.choice(pairs)
    own = pl["promise"][1]
    attr = rng.choice(pl["out"])[1]
    T = find(s["otypes"], find(s["promises"], own)["type"][1])
    at = next(x for x in T["attrs"] if x["name"] == attr)
    if at["kind"][0] == "F" and b.creator.get(own) == a["id"] and rng.random() < 0.3:
        sh = {"STRING": "SStr", "NUMERIC": "SInt", "BOOLEAN": "SBool", "STRING_LIST": "SStrs", "NUMERIC_LIST": "SNums",
              "BOOLEAN_LIST": "SBools"}[at["kind"][1]]
        a["op"]["defaults"] = a["op"]["defaults"] + [(attr, sh)]
        return "an operation gives a default value to an attribute a pipeline writes"
    mode, sel = a["op"]["incl"]
    if mode == "include":
        a["op"]["incl"] = (mode, sorted(set(sel or []) | {attr}))
    else:
        a["op"]["incl"] = (mode, [n for n in (sel or []) if n != attr] if rng.random() < 0.7 else None)
    return "an operation may set an attribute a pipeline writes (%s)" % mode


@M.mutator("C09")
def p_checkpoint_compares_written(rng, s, b):
    """Some checkpoint compares <action>.object_promise.<attr> where a pipeline writes attr of the action's promise."""
    pls = _pipes(rng, s, b)
    cands = []
    for pl in pls:
        acts = {a["id"] for a in s["actions"] if a["promise"] == pl["promise"]}
        for c in s["checkpoints"]:
            for i, d in enumerate(c["deps"]):
                if d[0] == "cmp":
                    for side in (1, 3):
                        if d[side][0] == "act" and d[side][1][1] in acts and d[4 - side][0] == "lit":
                            cands.append((pl, c, i, side))
    if not cands:
        return None
    # prefer pipelines with several outputs (the compared attribute is then written by one of them, at any position)
    multi = [x for x in cands if len(x[0]["out"]) >= 2]
    pl, c, i, side = rng.choice(multi if multi and rng.random() < 0.7 else cands)
    attr = rng.choice(pl["out"])[1]
    d = list(c["deps"][i])
    d[side] = ("act", d[side][1], [attr])
    d[4 - side] = ("lit", "SNull", b.fresh())
    c["deps"][i] = tuple(d)
    if rng.random() < 0.5:
        # the written promise gets id 0 (exchanged with whichever promise has it)
        own = pl["promise"][1]
        if own != 0:
            rename_promise_ids(s, {own: 0, 0: own})
    return "a checkpoint compares an attribute that a pipeline writes"


def rename_promise_ids(s, mapping):
    """Consistently renumbers object promises everywhere in the scenario (every reference is a ("promise", id) pair)."""
    def walk(x):
        if isinstance(x, (tuple, list)):
            if len(x) == 2 and x[0] == "promise" and isinstance(x[1], int):
                return type(x)(("promise", mapping.get(x[1], x[1])))
            return type(x)(walk(y) for y in x)
        if isinstance(x, dict):
            return {k: walk(v) for k, v in x.items()}
        return x
    for p in s["promises"]:
        p["id"] = mapping.get(p["id"], p["id"])
    for key in list(s):
        if key != "promises":
            s[key] = walk(s[key])
    for p in s["promises"]:
        for k in list(p):
            if k != "id":
                p[k] = walk(p[k])


@M.mutator("C09")
def p_index10_accepted(rng, s, b):
    """Regression (must be ACCEPTED): twelve sibling traversals; the variable traversed by traversal 1 is assigned
    inside traversal 10 / 11, whose scope "0.1x" is not nested in scope "0.1"."""
    pls = [pl for pl in _pipes(rng, s, b) if len(pl["trav"]) <= 1]
    if not pls:
        return None
    pl = rng.choice(pls)
    steps, final = replay(s, pl)
    # the store as it is after the existing traversals, before the top-level applications
    mid = next(before for ins, before, info in steps if ins[0] == "out" or (ins[0] == "app" and ins[1] == ()))
    g = PipeGen(b, rng)
    ctx = pipe_ctx(s, pl)
    ctx_names = set(_ctx_names(s, pl))
    taken = {json.dumps(t["src"]) for t in pl["trav"]}
    g.pool = [n for n in g.pool if all(n != x["name"] for x in final.e)]
    g.gen_wide(mid, pl, ctx, pl["promise"][1], ctx_names, {}, taken, body_apps=(0,))
    wrote = any(a["to"] == pl["trav"][1]["src"][1] for t in pl["trav"][10:] for a in t["apply"])
    return "12 sibling traversals%s" % ("; traversal >= 10 assigns the variable traversed by traversal 1" if wrote else "")


M.THREAD_ONLY.update({"p_redeclare_thread_variable", "p_assign_thread_variable"})


def mutate_p(rng, only=None, threads=False):
    """(scenario, mutator, owner, description): one fault in a fresh conformant scenario with pipelines."""
    names = [m for m in sorted(M.MUTATORS) if m.startswith("p_") and (only is None or M.MUTATORS[m][0] in only or m in only)]
    for _ in range(20):
        name = rng.choice(names)
        owner, f = M.MUTATORS[name]
        for _ in range(60):
            s, b = gen_valid_p(rng, threads=threads or name in M.THREAD_ONLY, n_pipes=rng.choice([1, 1, 2]))
            desc = f(rng, s, b)
            if desc is not None:
                return s, name, owner, desc
    raise RuntimeError("no applicable mutator among %s" % names)


# ---- further single faults
@M.mutator("C09")
def p_index10_out_of_scope(rng, s, b):
    """Twelve sibling traversals; traversal 10 / 11 reads or writes a variable declared inside traversal 1
    (scope "0.1" is a textual but not a segment-wise prefix of "0.1x")."""
    if p_index10_accepted(rng, s, b) is None:
        return None
    pl = next(pl for pl in s["pipelines"] if len(pl["trav"]) >= 12)
    t1, tk = pl["trav"][1], pl["trav"][rng.choice([10, 11])]
    if rng.random() < 0.5 or not [d for d in t1["vars"] if not d["type"].endswith("_LIST") and d["type"] != "OBJECT"]:
        # read the loop variable of traversal 1 into a fresh variable of its type, declared in the reading traversal
        steps, final = replay(s, pl)
        lv = next(x for x in final.e if x["scope"] == (1,) and x["loop"])
        if lv["name"] == tk["as"] or any(d["name"] == lv["name"] for d in tk["vars"]):
            return None
        n = 950 + rng.randrange(40)
        ty = ty_str(lv["type"])
        if lv["type"][1] == "OBJECT":
            return None
        tk["vars"].append({"name": n, "type": ty, "init": "SNull"})
        tk["apply"].append({"src": ("V", lv["name"], []), "step": None, "method": "SET", "to": n})
        return "traversal >= 10 reads the loop variable of traversal 1"
    d = rng.choice([d for d in t1["vars"] if not d["type"].endswith("_LIST") and d["type"] != "OBJECT"])
    if d["name"] == tk["as"] or any(x["name"] == d["name"] for x in tk["vars"]):
        return None
    lit_src = {"STRING": "SStr", "NUMERIC": "SInt", "BOOLEAN": "SBool"}[d["type"]]
    n = 950 + rng.randrange(40)
    tk["vars"].append({"name": n, "type": d["type"], "init": lit_src})
    m = "SET" if d["init"] == "SNull" else {"STRING": "CONCAT", "NUMERIC": "ADD", "BOOLEAN": "AND"}[d["type"]]
    tk["apply"].append({"src": ("V", n, []), "step": None, "method": m, "to": d["name"]})
    return "traversal >= 10 writes a variable declared inside traversal 1"


def _resource(g, s, pl, ins, before, want_pt, avoid_obj):
    """An (src, step) readable at the application ins whose stepped type has ptype want_pt and an object type other
    than avoid_obj."""
    ctx, own = pipe_ctx(s, pl), pl["promise"][1]
    cands = []
    for src, r in g.sources(before, ins[1], ctx, own):
        for step, rt in g.steps_for(r):
            if rt is not None and step not in (("filter",), ("sort",)) and (rt[0], rt[1]) == want_pt and rt[2] is not None and rt[2] != avoid_obj:
                cands.append((src, step))
    return g.rng.choice(cands) if cands else None


@M.mutator("C08")
def p_object_type_mismatch(rng, s, b):
    """An object-typed variable receives objects of another object type than the attribute it is written to / than
    it already holds."""
    c = _pick_instr(rng, s, b, "app", lambda pl, ins, st, info: _app_state(info) is not None and info[1][1] == "OBJECT" and info[1][2] is not None
                    and (info[2]["type"][2] is not None or (info[2]["scope"] == () and any(v == info[2]["name"] for v, _ in pl["out"]))))
    if c is None:
        return None
    pl, ins, before, info, final = c
    g = PipeGen(b, rng)
    new = _resource(g, s, pl, ins, before, (info[1][0], info[1][1]), info[1][2])
    if new is None:
        return None
    ins[2]["src"], ins[2]["step"] = new
    return "object-typed variable receives an object of a different object type"


@M.mutator("C08")
def p_reorder_first_set(rng, s, b):
    """The SET that initialises a null-initialised variable is moved behind a later operation on it (same apply list),
    or from a traversal to the top-level apply list (which the validator reaches after all traversals)."""
    pls = _pipes(rng, s, b)
    rng.shuffle(pls)
    for pl in pls:
        steps, final = replay(s, pl)
        apps = [(ins, info) for ins, before, info in steps if ins[0] == "app" and _app_state(info) is not None]
        firsts = [(ins, info) for ins, info in apps if _app_state(info)[2]]
        rng.shuffle(firsts)
        for ins, info in firsts:
            key = (info[2]["name"], info[2]["scope"])
            later = [i2 for i2, f2 in apps if i2 is not ins and f2[2] is not None and (f2[2]["name"], f2[2]["scope"]) == key
                     and apps.index((i2, f2)) > apps.index((ins, info))]
            if not later:
                continue
            holder = pl["apply"] if ins[1] == () else next(i[2] for i in flatten(pl) if i[0] == "trav" and i[1] == ins[1])["apply"]
            same = [i2 for i2 in later if i2[1] == ins[1]]
            if same:
                a, c2 = ins[2], same[0][2]
                i, j = holder.index(a), holder.index(c2)
                holder[i], holder[j] = holder[j], holder[i]
                return "the first SET of a null-initialised variable swapped with a later operation on it"
            if ins[1] != () and info[2]["scope"] == () and ins[2]["src"][0] == "P":
                holder.remove(ins[2])
                pl["apply"].append(ins[2])
                return "the first SET of a null-initialised variable moved from a traversal to the top-level apply list"
    return None


@M.mutator("C08")
def p_filter_without_item(rng, s, b):
    c = _pick_instr(rng, s, b, "app", lambda pl, ins, st, info: ins[2]["step"] is not None and ins[2]["step"][0] == "filter")
    if c is None:
        return None
    lst, i, depth = rng.choice(_cmp_positions(c[1][2]["step"][1]))
    _, l, op, rr = lst[i]
    fix = lambda o: ("item", True, o[2]) if o[0] == "item" else o
    lst[i] = ("cmp", fix(l), op, fix(rr))
    return "filter comparison in which no operand is the filter variable written as a reference object"


@M.mutator("C09")
def p_duplicate_sibling_source(rng, s, b):
    cands = []
    for pl in _pipes(rng, s, b):
        if len(pl["trav"]) >= 1:
            cands.append((pl, pl["trav"]))
        for ins in flatten(pl):
            if ins[0] == "trav" and len(ins[2]["trav"]) >= 1:
                cands.append((pl, ins[2]["trav"]))
    if not cands:
        return None
    pl, lst = rng.choice(cands)
    t = rng.choice(lst)
    names = {x["name"] for x in replay(s, pl)[1].e}
    n = next(k for k in range(960, 1200) if k not in names)
    lst.append({"src": t["src"], "as": n, "vars": [], "trav": [], "apply": []})
    return "two sibling traversals over the same source"


M.FORCE_ID_SPELLING.add("p_duplicate_sibling_source")


# ----------------------------------------------------------------------------------------------- systematic families
def _cell_base():
    """One object type with an attribute of every kind; promise 0 (the source) and promise 1 (written by the pipeline)."""
    attrs = [{"name": k, "kind": ("F", t)} for k, t in enumerate(S.FIELD_TYPES)]
    attrs += [{"name": 6, "kind": ("E", ("type", 0))}, {"name": 7, "kind": ("C", ("type", 0))}]
    op = lambda: {"incl": ("include", []), "defaults": [], "edges": [], "appends": None}
    return {"parties": [{"id": 0, "name": 200}], "otypes": [{"id": 0, "name": 100, "attrs": attrs}],
            "promises": [{"id": 0, "name": 300, "type": ("type", 0), "ctx": None}, {"id": 1, "name": 301, "type": ("type", 0), "ctx": None}],
            "actions": [{"id": 0, "name": 400, "party": ("party", 0), "promise": ("promise", 0), "ctx": None, "dep": None, "op": op(), "milestones": []},
                        {"id": 1, "name": 401, "party": ("party", 0), "promise": ("promise", 1), "ctx": None, "dep": None, "op": op(), "milestones": []}],
            "checkpoints": [], "groups": [], "pipelines": []}


CELL_ATTR = {"STRING": 0, "NUMERIC": 1, "BOOLEAN": 2, "STRING_LIST": 3, "NUMERIC_LIST": 4, "BOOLEAN_LIST": 5, "OBJECT": 6, "OBJECT_LIST": 7}


def all_cells():
    """(variable type, initial, method, source type, step): every combination; steps: none, the 9 aggregations of
    $_item, select of each attribute kind, a filter on $_item, sort."""
    steps = [None] + [("agg", None, op) for op in AGGS] + [("select", [k]) for k in range(8)] + [("agg", [k], "COUNT") for k in (3, 7)]
    steps += [("filter", [("cmp", ("item", False, []), "DOES_NOT_EQUAL", ("lit", "SNull", 1))]), ("sort", [[]])]
    out = []
    for vt in VAR_TYPES:
        for init in LEGAL_INIT[vt]:
            for m in METHODS:
                for st in VAR_TYPES:
                    for step in steps:
                        out.append((vt, init, m, st, step))
    return out


def cell_scenario(cell):
    vt, init, m, st, step = cell
    s = _cell_base()
    s["pipelines"].append({"id": 0, "name": 700, "promise": ("promise", 1), "vars": [{"name": 60, "type": vt, "init": init}], "trav": [],
                           "apply": [{"src": ("P", ("promise", 0), [CELL_ATTR[st]]), "step": step, "method": m, "to": 60}],
                           "out": [(60, CELL_ATTR[vt])]})
    return s


PLACES = [(), (0,), (1,), (1, 0), (1, 0, 0), (10,), (10, 0), (11,)]


def placement_scenario(decl_scope, use_scope, write, rng=None):
    """Twelve sibling traversals (1 and 10 with nested traversals); a NUMERIC variable X declared in decl_scope; an
    application in use_scope that writes X (from a NUMERIC promise path) or reads X (into a top-level variable)."""
    s = _cell_base()
    lists = [{"name": 100 + i, "type": "NUMERIC_LIST", "init": "SNums"} for i in range(12)]
    nest = {"name": 120, "type": "STRING_LIST", "init": "SStrs"}
    def trav(src, as_):
        return {"src": src, "as": as_, "vars": [], "trav": [], "apply": []}
    travs = [trav(("V", 100 + i, []), 130 + i) for i in range(12)]
    travs[1]["trav"].append(trav(("V", 120, []), 150))
    travs[1]["trav"][0]["trav"].append(trav(("P", ("promise", 0), [3]), 151))
    travs[10]["trav"].append(trav(("V", 120, []), 152))
    def holder(sc):
        if sc == ():
            return None
        t = travs[sc[0]]
        for i in sc[1:]:
            t = t["trav"][i]
        return t
    pl = {"id": 0, "name": 700, "promise": ("promise", 1), "vars": lists + [nest, {"name": 61, "type": "NUMERIC", "init": "SInt"}],
          "trav": travs, "apply": [], "out": [(61, 1)]}
    x = {"name": 60, "type": "NUMERIC", "init": "SInt"}
    (pl["vars"] if decl_scope == () else holder(decl_scope)["vars"]).append(x)
    app = ({"src": ("P", ("promise", 0), [1]), "step": None, "method": "ADD", "to": 60} if write
           else {"src": ("V", 60, []), "step": None, "method": "ADD", "to": 61})
    (pl["apply"] if use_scope == () else holder(use_scope)["apply"]).append(app)
    s["pipelines"].append(pl)
    return s


def all_placements():
    return [(d, u, w) for d in PLACES for u in PLACES for w in (True, False)]


def cell_expected(cell):
    """Python mirror's opinion on a cell (only used to balance the sample between accepted and rejected cells)."""
    vt, init, m, st, step = cell
    s = _cell_base()
    r = walk(s, 0, False, [CELL_ATTR[st]])
    rt = step_type(s, r, step)
    return rt is not None and combine(decl_type(vt), m, rt, init == "SNull")


# ----------------------------------------------------------------------------------------------- check body (C08, C09)
def make_valid_items_p(rng, n, variants=2, threads=False):
    import engine
    items = []
    for k in range(n):
        s, b = gen_valid_p(rng, threads=threads, n_pipes=rng.choice([1, 1, 2, 2, 0]))
        g = engine.scen_hash(s)
        for v in range(variants):
            r = {"spelling": ["mixed", "id", "alias", "mixed"][v % 4], "shuffle": v % 2 == 1, "descriptive": (k + v) % 3 == 2,
                 "seed": rng.randrange(1 << 30)}
            doc = S.render(s, random.Random(r["seed"]), r["spelling"], r["shuffle"], r["descriptive"])
            items.append(engine.Item(s, doc, "valid", render=r, group=g))
    return items


def make_mutant_items_p(rng, n, owners, threads=False):
    import engine
    items = []
    for k in range(n):
        s, name, owner, desc = mutate_p(rng, only=owners, threads=threads)
        r = {"spelling": "id" if name in M.FORCE_ID_SPELLING else "mixed", "shuffle": k % 2 == 1, "descriptive": k % 4 == 3 and name not in M.FORCE_ID_SPELLING,
             "seed": rng.randrange(1 << 30)}
        doc = S.render(s, random.Random(r["seed"]), r["spelling"], r["shuffle"], r["descriptive"])
        items.append(engine.Item(s, doc, "mutant", mutator=name, owner=owner, desc=desc, render=r, group=engine.scen_hash(s)))
    return items


def make_family_items(rng, kind, keys, make):
    import engine
    items = []
    for k in keys:
        s = make(k)
        r = {"spelling": "mixed", "shuffle": False, "descriptive": False, "seed": rng.randrange(1 << 30)}
        doc = S.render(s, random.Random(r["seed"]), r["spelling"], r["shuffle"], r["descriptive"])
        items.append(engine.Item(s, doc, kind, mutator=None, owner=None, desc=json.dumps(k, default=str), render=r, group=engine.scen_hash(s)))
    return items


def run_check(ctx, owners, n_valid, n_mut, families, rule, trusted, prop_files=()):
    """Proof step on Properties/<prop>.v (+ prop_files), then: conformant scenarios with pipelines (half with thread
    groups, two renderings each), single-fault mutants owned by `owners`, and the systematic families."""
    import os, re, subprocess, shutil
    import common, kernel, engine
    ok, thms, log = kernel.proof_step(ctx, regen=("tables",))
    for pf in prop_files:
        lock = ctx.coq_lock()
        try:
            ok2, log2 = ctx.make(["theories/Properties/%s.vo" % pf])
        finally:
            lock.close()
        src_path = os.path.join(common.COQ, "theories", "Properties", pf + ".v")
        names = re.findall(r"^\s*(?:Theorem|Corollary)\s+(\w+)", open(src_path).read(), re.M)
        if ok2:
            scratch = os.path.join(ctx.coq_scratch, pf + ".v")
            shutil.copy(src_path, scratch)
            r = subprocess.run(["timeout", "600", "coqc", "-Q", os.path.join(common.COQ, "theories"), "OIS", "-w", "-notation-overridden", scratch],
                               capture_output=True, text=True, cwd=ctx.coq_scratch)
            out = r.stdout + r.stderr
            ok2 = r.returncode == 0
            log2 = out
            ctx.assumptions += [x.strip() for x in re.split(r"(?=Closed under the global context|Axioms:)", out) if x.strip()]
        cov = ctx.coverage
        cov["obligations"] = cov.get("obligations", 0) + max(1, len(names))
        cov["discharged"] = cov.get("discharged", 0) + (len(names) if ok2 else 0)
        cov["obligation_names"] = cov.get("obligation_names", []) + ["OIS.Properties.%s.%s" % (pf, t) for t in names]
        thms = thms + names
        if not ok2:
            ok, log = False, log + log2
    rng = random.Random(ctx.seed)
    scale = 1 if ctx.tier == "quick" else 10
    items = []
    items += make_valid_items_p(rng, n_valid * scale // 2, variants=2, threads=False)
    items += make_valid_items_p(rng, n_valid * scale - n_valid * scale // 2, variants=2, threads=True)
    items += make_mutant_items_p(rng, n_mut * scale // 2, owners, threads=False)
    items += make_mutant_items_p(rng, n_mut * scale - n_mut * scale // 2, owners, threads=True)
    items += families(ctx, rng)
    replay_file = getattr(ctx, "replay_file", None)
    if replay_file:
        r = json.load(open(replay_file))
        items = [engine.Item(r["scenario"], r["document"], r.get("kind", "replay"), r.get("mutator"), r.get("owner"), r.get("fault"), r.get("render"), "replay")]
    evaluated = engine.run_items(ctx, items, coq_file_fn=coq_cases_file_p)
    dis, uneval = engine.report(ctx, items, "T3 correspondence: whole validator vs Coq model (Model/Rules.v + Model/PipeRules.v) on rendered scenarios with aggregation pipelines")
    # mutants that must be accepted by both sides (regressions)
    for it in items:
        if it.mutator == "p_index10_accepted" and it.model_accepts is False and it.res["outcome"] != "accept":
            ctx.notes.append("regression mutant p_index10_accepted rejected by model and implementation: %s" % it.desc)
    raised = [it for it in items if it.res["outcome"] == "raise"]
    st = {}
    for it in items:
        for pl in it.scenario.get("pipelines", []):
            for ins in flatten(pl):
                st[ins[0]] = st.get(ins[0], 0) + 1
                if ins[0] == "trav" and ins[1][-1] >= 10:
                    st["traversal index >= 10"] = st.get("traversal index >= 10", 0) + 1
                if ins[0] == "app":
                    k = "step:" + (ins[2]["step"][0] if ins[2]["step"] else "none")
                    st[k] = st.get(k, 0) + 1
    ctx.coverage.update({
        "rule": rule, "pipeline_constructs": st,
        "samples": engine.sample_of([it for it in items if it.kind == "valid"][:1] + [it for it in items if it.kind == "mutant"][:2]),
        "trusted_base": trusted + [
            "harness/pipes.py: generator of conformant pipelines on harness/scenario.py scenarios (8 variable types with every legal initial, traversal trees to depth 3 with up to 12 siblings, every step kind x method the tables allow, sources by promise path / pipeline, loop and thread variable / threaded promise inside and outside its group, nested filters, outputs incl. object types), renderer hook, single-fault mutators",
            "Model/PipeRules.v is tied to the implementation by this differential run (bounded by the generator), not by proof about the Python"],
        "implementation_raised": len(raised)})
    if not evaluated and not ctx.violations:
        kernel.obligation_violation(ctx, thms, "; ".join(ctx.notes[-3:]), {"correspondence": "Coq evaluation of scenario cases failed"})
    if not ok and not ctx.violations:
        # a regenerated table no longer equals the specification's: look for a cell (variable type, initial, method,
        # source type, step) on which the implementation's verdict differs from what the specification expects
        found = 0
        try:
            import impl as _impl
            cells = all_cells()
            random.Random(ctx.seed + 8).shuffle(cells)
            cells = cells[:6000]
            docs = []
            for c in cells:
                sc = cell_scenario(c)
                docs.append(S.render(sc, random.Random(1), "id", False, False))
            pool = _impl.Pool(ctx)
            res = pool.validate_many(docs)
            pool.close()
            for c, d, r in zip(cells, docs, res):
                if (r["outcome"] == "accept") != bool(cell_expected(c)) and found < 3:
                    found += 1
                    ctx.violation({"what": "pipeline typing: the implementation's verdict on a (variable type, initial value, method, source type, step) cell differs from the specification's tables",
                                   "cell": list(map(str, c)), "specification_accepts": bool(cell_expected(c)), "implementation": r, "document": d})
        except BaseException as e:  # noqa
            ctx.notes.append("cell search failed: %r" % (e,))
        if not found:
            # ... or a filter clause `$_item.<attribute> <operator> <literal>` (6 attribute types x 14 operators x 9
            # literal shapes, both operand orders) whose verdict differs from the specification's comparison rules
            try:
                import impl as _impl
                base = next(c for c in all_cells() if c[3] == "OBJECT_LIST" and c[4] is not None and c[4][0] == "filter" and cell_expected(c))
                fcells, docs = [], []
                for k in range(6):
                    for op in OPS:
                        for shape in ("SNull", "SStr", "SInt", "SFloat", "SBool", "SEmpty", "SStrs", "SNums", "SBools"):
                            for flip in (False, True):
                                l, r = ("item", False, [k]), ("lit", shape, 1)
                                tl, tr = S.FIELD_TYPES[k], SHAPE_TY[shape]
                                if flip:
                                    l, r, tl, tr = r, l, tr, tl
                                exp = bool(py_cmp(tl, op, tr) or _kf_cmp(tl, op, tr))
                                c = (base[0], base[1], base[2], base[3], ("filter", [("cmp", l, op, r)]))
                                fcells.append((k, op, shape, flip, exp))
                                docs.append(S.render(cell_scenario(c), random.Random(1), "id", False, False))
                pool = _impl.Pool(ctx)
                res = pool.validate_many(docs)
                pool.close()
                for c, d, r in zip(fcells, docs, res):
                    if (r["outcome"] == "accept") != c[4] and found < 3:
                        found += 1
                        ctx.violation({"what": "pipeline typing: a filter clause is %s although the specification's comparison rules say otherwise" % ("accepted" if r["outcome"] == "accept" else "not accepted"),
                                       "clause": {"item_attribute_type": S.FIELD_TYPES[c[0]], "operator": c[1], "literal_shape": c[2], "literal_on_the_left": c[3]},
                                       "specification_accepts": c[4], "implementation": r, "document": d})
            except BaseException as e:  # noqa
                ctx.notes.append("filter cell search failed: %r" % (e,))
        if not found:
            kernel.obligation_violation(ctx, thms, log)
    return items


# ---- structural rules of the model that neither property states (kept in the tie so that the model stays the code's)
@M.mutator("C08")
def p_structural_fault(rng, s, b):
    pls = _pipes(rng, s, b)
    if not pls:
        return None
    pl = rng.choice(pls)
    kind = rng.choice(["no_output", "short_nest", "empty_filter", "dup_id", "dup_name", "missing_promise", "same_promise", "wrong_kind"])
    if kind == "no_output":
        pl["out"] = []
        return "pipeline without outputs"
    if kind in ("short_nest", "empty_filter"):
        c = _pick_instr(rng, s, b, "app", lambda pl, ins, st, info: ins[2]["step"] is not None and ins[2]["step"][0] == "filter")
        if c is None:
            return None
        a = c[1][2]
        if kind == "empty_filter":
            a["step"] = ("filter", [])
            return "filter without clauses"
        cl = a["step"][1]
        cl.append(("nest", [cl[0]]))
        return "nested filter query with a single clause"
    if kind in ("dup_id", "dup_name", "same_promise"):
        if len(pls) < 2:
            return None
        other = next(x for x in pls if x is not pl)
        if kind == "dup_id":
            pl["id"] = other["id"]
            return "two pipelines with one id"
        if kind == "dup_name":
            pl["name"] = other["name"]
            return "two pipelines with one name"
        # a second pipeline on the same promise (copy: same variables, so both are well formed)
        i = s["pipelines"].index(pl)
        cp = copy.deepcopy(other)
        cp["id"], cp["name"] = pl["id"], pl["name"]
        s["pipelines"][i] = cp
        return "two pipelines write one object promise"
    if kind == "missing_promise":
        pl["promise"] = ("promise", 900 + rng.randrange(50))
        return "pipeline on an object promise that does not exist"
    a = rng.choice(s["actions"])
    pl["promise"] = ("action", a["id"])
    return "pipeline whose object_promise is an action reference"


