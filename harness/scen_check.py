"""Shared body of the validator properties decided on the scenario model (C01, C02, C03, C05, C06, C07)."""
import os, random, json
import common, kernel, engine, impl, scenario as S, mutators as M


def scenario_check(ctx, owners, n_valid, n_mut, rule, trusted, extra=None, sizes=None, prop_files=None):
    """proof step on Properties/<prop>.v (+ auxiliary property files), then valid scenarios (with and without
    thread groups, several renderings each) and single-fault mutants owned by `owners`."""
    ok, thms, log = kernel.proof_step(ctx, regen=("tables",))
    for extra_file in (prop_files or []):
        lock = ctx.coq_lock()
        try:
            ok2, log2 = ctx.make(["theories/Properties/%s.vo" % extra_file])
        finally:
            lock.close()
        ctx.coverage["obligation_names"] = ctx.coverage.get("obligation_names", []) + ["OIS.Properties.%s (file)" % extra_file]
        if not ok2:
            ok, log = False, log + log2
    rng = random.Random(ctx.seed)
    scale = 1 if ctx.tier == "quick" else 10
    items = []
    items += engine.make_valid_items(ctx, rng, n_valid * scale // 2, variants=2, threads=False, sizes=sizes)
    items += engine.make_valid_items(ctx, rng, n_valid * scale - n_valid * scale // 2, variants=2, threads=True, sizes=sizes)
    if owners:
        items += engine.make_mutant_items(ctx, rng, n_mut * scale // 2, owners=owners, threads=False)
        items += engine.make_mutant_items(ctx, rng, n_mut * scale - n_mut * scale // 2, owners=owners, threads=True)
    if extra:
        items += extra(ctx, rng)
    replay = getattr(ctx, "replay_file", None)
    if replay:
        r = json.load(open(replay))
        items = [engine.Item(r["scenario"], r["document"], r.get("kind", "replay"), r.get("mutator"), r.get("owner"), r.get("fault"), r.get("render"), "replay")]
    evaluated = engine.run_items(ctx, items)
    dis, uneval = engine.report(ctx, items, "T3 correspondence: whole validator vs Coq model (Model/Rules.v) on rendered scenarios")
    raised = [it for it in items if it.res["outcome"] == "raise"]
    ctx.coverage.update({"rule": rule, "samples": engine.sample_of([it for it in items if it.kind == "valid"][:1] + [it for it in items if it.kind != "valid"][:2]),
                         "trusted_base": trusted + ["harness/scenario.py: generator of conformant scenarios (random DAGs of creating/editing actions, every checkpoint encoding, thread groups to depth 2, operations, appends), renderer to JSON with random id/alias spelling, array order and descriptive properties; harness/mutators.py single-fault mutators",
                                                    "Model/Rules.v is tied to the implementation by this differential run (bounded by the generator), not by proof about the Python"],
                         "implementation_raised": len(raised)})
    if not evaluated and not ctx.violations:
        kernel.obligation_violation(ctx, thms, "; ".join(ctx.notes[-3:]), {"correspondence": "Coq evaluation of scenario cases failed"})
    if not ok and not ctx.violations:
        kernel.obligation_violation(ctx, thms, log)
    return items
