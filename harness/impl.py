"""Runs the implementation (from the snapshot of /repo's working tree) on many documents in parallel."""
import os, sys, json, traceback, multiprocessing as mp

_COPY = None


def _init(copy):
    global _COPY
    _COPY = copy
    sys.path.insert(0, copy)
    os.chdir(copy)
    os.environ["NATUREBLOCKS_OPEN_IMPACT_STANDARDS_VERIF"] = "1"
    import warnings
    warnings.simplefilter("ignore")
    sys.setrecursionlimit(3000)


def classify_exc(e):
    tb = traceback.extract_tb(e.__traceback__)
    frames = [f for f in tb if _COPY and f.filename.startswith(_COPY)]
    fr = frames[-1] if frames else (tb[-1] if tb else None)
    return {"type": type(e).__name__, "msg": str(e)[:200],
            "where": "%s:%s" % (os.path.basename(fr.filename), fr.name) if fr else "?"}


def validate_one(doc, entry="json"):
    """Returns dict(outcome=accept|reject|raise, errors=[...], exc=...)."""
    from validation.schema_validator import SchemaValidator
    v = SchemaValidator()
    try:
        if entry == "json":
            errs = v.validate(json_string=json.dumps(doc))
        else:
            errs = v.validate(schema_dict=doc)
    except RecursionError as e:
        return {"outcome": "raise", "errors": [], "exc": {"type": "RecursionError", "msg": "", "where": "?"}}
    except BaseException as e:  # noqa
        return {"outcome": "raise", "errors": [], "exc": classify_exc(e)}
    if not isinstance(errs, list):
        return {"outcome": "raise", "errors": [], "exc": {"type": "NotAList", "msg": repr(errs)[:100], "where": "validate"}}
    res = {"outcome": "accept" if not errs else "reject", "errors": [str(x)[:300] for x in errs[:12]], "exc": None}
    res["reused"] = _on_reused_instance(doc, errs)
    return res


_SHARED = {"v": None, "prev": None}


def _on_reused_instance(doc, fresh_errs):
    """The same document on a validator instance that this worker keeps using for every document it sees (documents
    of one check resemble each other: same names with other ids, same paths with other contents).  Returns None when
    the result equals the fresh one, else what differs, with the shortest history that reproduces it."""
    from validation.schema_validator import SchemaValidator

    def run(v, d):
        try:
            e = v.validate(json_string=json.dumps(d))
            return ("ok", [str(x) for x in e]) if isinstance(e, list) else ("raise", "NotAList")
        except BaseException as ex:  # noqa
            return ("raise", type(ex).__name__)
    if _SHARED["v"] is None:
        _SHARED["v"] = SchemaValidator()
    want = ("ok", [str(x) for x in fresh_errs])
    prev = _SHARED["prev"]
    got = run(_SHARED["v"], doc)
    _SHARED["prev"] = doc
    if got == want:
        return None
    out = {"fresh": want[1][:4] if want[0] == "ok" else want, "reused": got[1][:4] if got[0] == "ok" else got,
           "verdict_differs": (want == ("ok", [])) != (got == ("ok", []))}
    if prev is not None:
        v2 = SchemaValidator()
        run(v2, prev)
        if run(v2, doc) == got:
            out["previous_document"] = prev
    _SHARED["v"] = SchemaValidator()      # start over, so that one divergence is not reported for every later document
    return out


def _job(args):
    fn, payload = args
    return globals()[fn](*payload) if isinstance(payload, tuple) else globals()[fn](payload)


class Pool:
    def __init__(self, ctx, n=None):
        self.pool = mp.get_context("fork").Pool(n or min(16, os.cpu_count() or 4), initializer=_init,
                                                initargs=(ctx.repo_copy,))

    def validate_many(self, docs, entry="json", chunk=8):
        return self.pool.map(_job, [("validate_one", (d, entry)) for d in docs], chunksize=chunk)

    def call_many(self, fn, payloads, chunk=8):
        """fn: name of a module-level function registered via register()."""
        return self.pool.map(_job, [(fn, p) for p in payloads], chunksize=chunk)

    def close(self):
        self.pool.close()
        self.pool.join()


def register(f):
    """Make a function callable inside pool workers by name (must be called before Pool())."""
    globals()[f.__name__] = f
    return f
