"""G-rewire (C12): well-shaped but arbitrarily wired scenarios.  Every field keeps the JSON shape the
specification requires and every reference / variable string stays lexically well formed; what they point at,
the ids, names, attribute types, gate types, operators and the dependency graph are scrambled."""
import copy, random
import scenario as S
from mutators import ref_positions, operand_positions, COLL

KINDS = S.KINDS


def any_ref(rng, s, kinds=None):
    k = rng.choice(kinds or KINDS)
    ids = [e["id"] for e in s[COLL[k]]]
    r = rng.random()
    if ids and r < 0.8:
        return (k, rng.choice(ids))
    if ids and r < 0.87:
        return (k, S.GHOST + rng.choice(ids))        # qualified by a schema that is not loaded
    return (k, 900 + rng.randrange(20))


def rewire(rng, s, k):
    s = copy.deepcopy(s)
    log = []
    for _ in range(k):
        r = rng.random()
        if r < 0.35:
            pos = ref_positions(s)
            if pos:
                setter, cur, kind, name = rng.choice(pos)
                setter(any_ref(rng, s, None if rng.random() < 0.5 else [kind]))
                log.append("retarget " + name)
        elif r < 0.45:
            coll = rng.choice([c for c in COLL.values() if len(s[c]) >= 2] or ["parties"])
            if len(s[coll]) >= 2:
                i, j = rng.sample(range(len(s[coll])), 2)
                key = rng.choice(["id", "alias" if coll == "checkpoints" else "name"])
                s[coll][j][key] = s[coll][i][key]
                log.append("collide %s.%s" % (coll, key))
        elif r < 0.55:
            t = rng.choice(s["otypes"])
            a = rng.choice(t["attrs"])
            kind = rng.choice(["F", "F", "E", "C"])
            a["kind"] = ("F", rng.choice(S.FIELD_TYPES)) if kind == "F" else (kind, any_ref(rng, s, ["type"]))
            log.append("retype attribute")
        elif r < 0.62 and s["checkpoints"]:
            c = rng.choice(s["checkpoints"])
            if len(c["deps"]) > 1:
                c["gate"] = rng.choice(S.GATES)
            log.append("regate")
        elif r < 0.72 and s["checkpoints"]:
            # nested reference anywhere, including to itself / mutually
            c = rng.choice(s["checkpoints"])
            c["deps"].append(("ref", any_ref(rng, s, ["checkpoint"])))
            if c["gate"] is None:
                c["gate"] = rng.choice(S.GATES)
            log.append("nest checkpoint")
        elif r < 0.80:
            ops = operand_positions(s)
            if ops:
                c, i, side = rng.choice(ops)
                d = list(c["deps"][i])
                choice = rng.random()
                if choice < 0.3:
                    d[2] = rng.choice(S.OPS)
                elif choice < 0.5:
                    d[side] = ("lit", rng.choice(list(S.SHAPE_TY)), rng.randrange(9))
                elif choice < 0.75:
                    gids = [g["id"] for g in s["groups"]] or [0]
                    d[side] = ("var", rng.choice(gids + [77]), rng.choice([[], [rng.randrange(12)]]))
                else:
                    d[side] = ("act", any_ref(rng, s, ["action"]), [rng.randrange(12) for _ in range(rng.randrange(3))])
                c["deps"][i] = tuple(d)
                log.append("rewrite operand")
        elif r < 0.88 and s["groups"]:
            g = rng.choice(s["groups"])
            ch = rng.random()
            nested = [h for h in s["groups"] if h["ctx"] is not None and h["ctx"][0] == "group"]
            if ch < 0.15 and nested:
                # a second thread group with the id of an enclosing one, nested inside one of its own descendants:
                # every scope still resolves (first match on the duplicated id), but containment is cyclic
                h = rng.choice(nested)
                parent = next((x for x in s["groups"] if x["id"] == h["ctx"][1]), None)
                if parent is not None:
                    dup = copy.deepcopy(parent)
                    dup["ctx"] = ("group", h["id"])
                    dup["name"] = 690 + rng.randrange(9)
                    s["groups"].append(dup)
                    log.append("duplicate thread group id nested in its own descendant")
                continue
            if ch < 0.4:
                g["ctx"] = rng.choice([None, any_ref(rng, s, ["group"]), ("group", g["id"])])
            elif ch < 0.7:
                gids = [x["id"] for x in s["groups"]]
                g["src"] = rng.choice([("V", rng.choice(gids + [77]), rng.choice([[], [rng.randrange(12)]])),
                                       ("P", any_ref(rng, s, ["promise"]), [rng.randrange(12) for _ in range(rng.randrange(3))])])
            else:
                g["dep"] = rng.choice([None, any_ref(rng, s, ["checkpoint"])])
            log.append("rewire thread group")
        else:
            a = rng.choice(s["actions"])
            ch = rng.random()
            if ch < 0.3:
                a["ctx"] = rng.choice([None, any_ref(rng, s, ["group"])])
            elif ch < 0.5:
                a["op"]["appends"] = rng.choice([None, (any_ref(rng, s, ["promise"]), [rng.randrange(12)])])
            elif ch < 0.7:
                a["op"]["edges"] = [(rng.randrange(12), any_ref(rng, s, ["promise"]))]
            elif ch < 0.85:
                a["op"]["defaults"] = [(rng.randrange(12), rng.choice(list(S.SHAPE_TY)))]
            else:
                a["op"]["incl"] = (rng.choice(["include", "exclude"]), rng.choice([None, [rng.randrange(12) for _ in range(rng.randrange(3))]]))
            log.append("rewire action")
    # keep the structural shape: gate iff >= 2 dependencies; a single dependency is a comparison
    for c in s["checkpoints"]:
        if len(c["deps"]) >= 2 and c["gate"] is None:
            c["gate"] = "AND"
        if len(c["deps"]) < 2:
            c["gate"] = None
        if len(c["deps"]) == 1 and c["deps"][0][0] == "ref":
            c["deps"].append(("cmp", ("act", any_ref(rng, s, ["action"]), []), "EQUALS", ("lit", "SNull", 0)))
            c["gate"] = "AND"
    return s, log
