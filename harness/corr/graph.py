"""Correspondence generator for the dependency graph and the Miro board (properties C19, C20).

Compares the Gallina models OIS.Model.Graph (build) and OIS.Model.Board (emit) with the implementation
visualization/dependency_graph.py + services/miro.py on the same inputs.

  gen_cases(rng, n)        -> abstract schemas (the input syntax of Model/Graph.v):
        {"actions": [{"id", "dep", "party", "info"}], "cps": [{"key", "gate", "deps", "info"}],
         "parties": [colour number | None]}
        dep: ["cmp", key, l, r] (l, r: action id or None) | ["ref", checkpoint position]
  render(case, rng)        -> full JSON schema document for the real code (references spelled by id or by
                              alias at random); stores the spelling tables in case["render"]
  run_impl(repo_root, jobs)-> per job {"doc", "validate", "scripts"}: validator verdict, nodes, gates,
                              edge_tuples, edge_dict, edge_captions, node_coordinates and, per response
                              script, the recorded Miro request sequence (requests.post stubbed in-process)
  coq_file(cases, results) -> Coq file text ending in ONE `Eval vm_compute in failing.`
  spec_check(case, result) -> None | str : C19/C20 checked directly on the implementation's output

What is compared (all exact, ORDER INCLUDED): wf of the abstract schema (must hold for every document the
validator accepts), the action node list, the gate dict (alias -> gate type, insertion order), the
edge tuple LIST with the caption appended by each _add_edge call, edge_dict, edge_captions, and for every
response script the full request sequence (kind, node label, scaled position, fill, content, from item,
to item, caption identity, end cap) and whether generation finished or raised.
"""
import sys, os, json, random, subprocess, copy, re

MAX_CASES_PER_FILE = 200
PY = "/venv/bin/python"
GATES = ["AND", "OR", "XOR", "NAND", "NOR"]
COQ_GATE = {"AND": "GAnd", "OR": "GOr", "XOR": "GXor", "NAND": "GNand", "NOR": "GNor"}
GATE_COLORS = {"AND": "#E88E8E", "OR": "#50da8b", "XOR": "#50da8b", "NAND": "#FFBA91", "NOR": "#E8A5D8"}
NUM_OPS = ["EQUALS", "DOES_NOT_EQUAL", "GREATER_THAN", "LESS_THAN", "GREATER_THAN_OR_EQUAL_TO",
           "LESS_THAN_OR_EQUAL_TO"]
OP_TEXT = {"EQUALS": "=", "DOES_NOT_EQUAL": "!=", "GREATER_THAN": ">", "LESS_THAN": "<",
           "GREATER_THAN_OR_EQUAL_TO": ">=", "LESS_THAN_OR_EQUAL_TO": "<=",
           "ONE_OF": "IN", "NONE_OF": "NOT IN", "CONTAINS": "CONTAINS", "DOES_NOT_CONTAIN": "DOES NOT CONTAIN"}

# ----------------------------------------------------------------------------------------------- generation


def _gen_one(rng):
    n = rng.randint(2, 12)
    ids = rng.sample(range(0, 40), n)
    rank = {a: i for i, a in enumerate(ids)}          # a may only depend on actions of smaller rank
    cmps = {}                                         # key -> (l, r)
    cps = []                                          # creation order; nested refs point backwards
    maxrank = []                                      # per checkpoint: largest rank named (transitively), -1 if none
    depth = []                                        # nesting depth
    next_key = [rng.randint(0, 5)]
    style = rng.choice(["mixed", "mixed", "gates", "singles", "shared", "nested", "parallel", "fan"])

    def new_cmp(limit):
        """a comparison naming only actions of rank < limit"""
        pool = [a for a in ids if rank[a] < limit]
        x = rng.choice(pool)
        r = rng.random()
        two = 0.5 if style == "parallel" else 0.25
        if r < two and len(pool) >= 1:
            y = rng.choice(pool) if rng.random() < (0.6 if style == "parallel" else 0.3) else rng.choice(pool)
            if style == "parallel" and rng.random() < 0.5:
                y = x
            l, rr = x, y
        elif r < two + 0.12:
            l, rr = None, x
        else:
            l, rr = x, None
        key = next_key[0]
        next_key[0] += rng.randint(1, 3)
        cmps[key] = (l, rr)
        return key

    def cmp_rank(key):
        l, r = cmps[key]
        return max(rank[v] for v in (l, r) if v is not None)

    def pick_dep(limit, lvl, own):
        """one dependency usable by an action of rank `limit` at nesting level lvl"""
        r = rng.random()
        reuse = [k for k in cmps if cmp_rank(k) < limit]
        p_ref = {"nested": 0.5, "gates": 0.2, "singles": 0.05}.get(style, 0.25)
        if lvl < 3 and r < p_ref:
            cands = [i for i in range(len(cps)) if maxrank[i] < limit and depth[i] + lvl + 1 <= 3]
            if cands and rng.random() < 0.5:
                return ["ref", rng.choice(cands)]
            j = new_cp(limit, lvl + 1)
            return ["ref", j]
        if own and rng.random() < 0.15:
            return list(rng.choice(own))                       # identical object repeated in the same checkpoint
        if reuse and rng.random() < (0.35 if style in ("shared", "parallel") else 0.15):
            return ["cmp", rng.choice(reuse)]                  # identical object used in another checkpoint
        if style == "parallel" and own and rng.random() < 0.4:
            # a different object naming the same action again
            k0 = rng.choice(own)
            if k0[0] == "cmp":
                l, rr = cmps[k0[1]]
                key = next_key[0]
                next_key[0] += 1
                cmps[key] = (l, rr) if rng.random() < 0.5 else (rr, l)
                return ["cmp", key]
        return ["cmp", new_cmp(limit)]

    def new_cp(limit, lvl):
        if style == "fan" and lvl == 0 and rng.random() < 0.5:
            # 8-12 distinct comparisons on one action: that many parallel edges between the gate and the action
            pool = [a for a in ids if rank[a] < limit]
            x = rng.choice(pool)
            deps = []
            for _ in range(rng.randint(8, 12)):
                key = next_key[0]
                next_key[0] += 1
                cmps[key] = (x, None) if rng.random() < 0.7 else (None, x)
                deps.append(["cmp", key])
            cps.append({"gate": rng.choice(GATES), "deps": deps, "info": rng.random() < 0.2})
            maxrank.append(rank[x])
            depth.append(0)
            return len(cps) - 1
        if lvl == 0 and style != "singles" and rng.random() < 0.12:
            # twin gates: one parent gate over two checkpoints that list the SAME dependencies (in another order) under
            # different gate types, e.g. "exactly one" = AND(OR(a, b), NAND(a, b))
            nd = rng.randint(2, 3)
            deps = [["cmp", new_cmp(limit)] for _ in range(nd)]
            twin = [list(d) for d in deps]
            rng.shuffle(twin)
            g1, g2 = rng.sample(GATES, 2)
            mr = max(cmp_rank(d[1]) for d in deps)
            pair = []
            for g, dd in ((g1, deps), (g2, twin)):
                cps.append({"gate": g, "deps": dd, "info": rng.random() < 0.2})
                maxrank.append(mr)
                depth.append(0)
                pair.append(len(cps) - 1)
            cps.append({"gate": rng.choice(GATES), "deps": [["ref", pair[0]], ["ref", pair[1]]], "info": rng.random() < 0.2})
            maxrank.append(mr)
            depth.append(1)
            return len(cps) - 1
        if style == "singles":
            nd = 1 if rng.random() < 0.8 else rng.randint(2, 3)
        elif style == "gates":
            nd = rng.randint(2, 4)
        else:
            nd = rng.choice([1, 1, 2, 2, 3, 4])
        deps = []
        if nd == 1:
            reuse = [k for k in cmps if cmp_rank(k) < limit]
            if reuse and rng.random() < 0.2:
                deps = [["cmp", rng.choice(reuse)]]
            else:
                deps = [["cmp", new_cmp(limit)]]
        else:
            for _ in range(nd):
                deps.append(pick_dep(limit, lvl, [d for d in deps if d[0] == "cmp"]))
        mr, dp = -1, 0
        for d in deps:
            if d[0] == "cmp":
                mr = max(mr, cmp_rank(d[1]))
            else:
                mr = max(mr, maxrank[d[1]])
                dp = max(dp, depth[d[1]] + 1)
        cps.append({"gate": rng.choice(GATES) if nd > 1 else None, "deps": deps, "info": rng.random() < 0.2})
        maxrank.append(mr)
        depth.append(dp)
        return len(cps) - 1

    n_parties = rng.randint(1, 4)
    parties = [None if rng.random() < 0.3 else rng.randint(0, 9) for _ in range(n_parties)]
    actions = []
    p_dep = rng.choice([0.5, 0.8, 0.95])
    for a in ids:
        dep = None
        if rank[a] > 0 and rng.random() < p_dep:
            shared = [i for i in range(len(cps)) if maxrank[i] < rank[a]]
            if shared and rng.random() < (0.5 if style == "shared" else 0.25):
                dep = rng.choice(shared)
            else:
                dep = new_cp(rank[a], 0)
        party = None if rng.random() < 0.04 else rng.randrange(n_parties)
        actions.append({"id": a, "dep": dep, "party": party, "info": rng.random() < 0.2})

    # threaded appendix: a comparison between a thread variable and a literal names no action (l = r = None)
    threads = None
    if rng.random() < 0.15:
        free = [v for v in range(40, 50) if v not in ids]
        s0, at = free[0], free[1]
        kT, kV, kW = next_key[0], next_key[0] + 1, next_key[0] + 2
        cmps[kT] = (s0, None)
        cmps[kV] = (None, None)
        cps.append({"gate": None, "deps": [["cmp", kT]], "info": False})
        cpt = len(cps) - 1
        if rng.random() < 0.5:
            cps.append({"gate": None, "deps": [["cmp", kV]], "info": False})
        else:
            cmps[kW] = (rng.choice(ids), None)
            deps = [["cmp", kV], ["cmp", kW]]
            rng.shuffle(deps)
            cps.append({"gate": rng.choice(GATES), "deps": deps, "info": rng.random() < 0.2})
        cpv = len(cps) - 1
        actions.append({"id": s0, "dep": None, "party": rng.randrange(n_parties), "info": False})
        actions.append({"id": at, "dep": cpv, "party": rng.randrange(n_parties), "info": rng.random() < 0.2})
        threads = {"s0": s0, "at": at, "cpt": cpt, "cpv": cpv, "kT": kT, "kV": kV}

    # document order: shuffle actions and checkpoints
    rng.shuffle(actions)
    order = list(range(len(cps)))
    rng.shuffle(order)                                 # new position p holds old checkpoint order[p]
    newpos = {old: p for p, old in enumerate(order)}
    keys = rng.sample(range(0, 60), len(cps))
    out_cps = []
    for p, old in enumerate(order):
        c = cps[old]
        deps = []
        for d in c["deps"]:
            if d[0] == "cmp":
                l, r = cmps[d[1]]
                deps.append(["cmp", d[1], l, r])
            else:
                deps.append(["ref", newpos[d[1]]])
        out_cps.append({"key": keys[p], "gate": c["gate"], "deps": deps, "info": c["info"]})
    for a in actions:
        if a["dep"] is not None:
            a["dep"] = newpos[a["dep"]]
    if threads is not None:
        threads["cpt"], threads["cpv"] = newpos[threads["cpt"]], newpos[threads["cpv"]]
    return {"actions": actions, "cps": out_cps, "parties": parties, "threads": threads}


def _abstract_ok(case):
    """every checkpoint referenced; (gate, dependencies) composites pairwise different"""
    used = set(a["dep"] for a in case["actions"] if a["dep"] is not None)
    if case.get("threads"):
        used.add(case["threads"]["cpt"])            # referenced by the thread group's depends_on
    for c in case["cps"]:
        for d in c["deps"]:
            if d[0] == "ref":
                used.add(d[1])
    if used != set(range(len(case["cps"]))):
        return False
    # the validator compares the composites up to the order of the dependency list
    comp = [json.dumps([c["gate"], sorted(json.dumps(d) for d in c["deps"])]) for c in case["cps"]]
    return len(set(comp)) == len(comp)


def gen_cases(rng, n):
    out = []
    while len(out) < n:
        c = _gen_one(rng)
        if _abstract_ok(c):
            out.append(c)
    return out


# ----------------------------------------------------------------------------------------------- rendering

def _norm_hex(h):
    """#abc and #aabbcc denote one colour; letter case is irrelevant"""
    h = h.lower()
    return "#" + "".join(ch * 2 for ch in h[1:]) if len(h) == 4 else h


def _hex(c):
    if c % 3 == 2:
        return "#%x%x%x" % (1 + c, 15 - c, (7 * c) % 16)      # the three-digit form (digits differ)
    return "#%02x%02x%02x" % (16 + 20 * c, 200 - 10 * c, 90 + 7 * c)


def render(case, rng):
    """Full schema document for the abstract case.  Spelling tables are stored in case["render"]."""
    acts, cps = case["actions"], case["cps"]
    cp_ids = rng.sample(range(0, 80), len(cps))
    party_ids = rng.sample(range(0, 20), len(case["parties"]))
    act_name = {a["id"]: "act %d" % a["id"] for a in acts}
    cp_alias = ["cp %d" % i for i in range(len(cps))]
    # an alias that looks like a number (but is not the id of any action: see Model/Graph.v)
    free_numbers = [v for v in range(40, 60) if v not in [a["id"] for a in acts]]
    for i in range(len(cps)):
        if rng.random() < 0.1 and free_numbers:
            cp_alias[i] = str(free_numbers.pop(rng.randrange(len(free_numbers))))
    if rng.random() < 0.3:
        # names / aliases that differ only in letter case are different names
        ids_sorted = sorted(a["id"] for a in acts)
        act_name = {aid: ("Act %d" % (k // 2) if k % 2 else "act %d" % (k // 2)) for k, aid in enumerate(ids_sorted)}
        cp_alias = [a if a.isdigit() else ("Cp %d" % (i // 2) if i % 2 else "cp %d" % (i // 2)) for i, a in enumerate(cp_alias)]
    party_name = ["party %d" % i for i in range(len(case["parties"]))]
    if len(party_ids) >= 2 and rng.random() < 0.35:
        # names that are the decimal spelling of ANOTHER party's id: "party:{7}" and "party:7" are different parties
        party_name = [str(party_ids[(i + 1) % len(party_ids)]) for i in range(len(party_ids))]

    def aref(a):
        return "action:%d" % a if rng.random() < 0.5 else "action:{%s}" % act_name[a]

    def cref(j):
        return "checkpoint:%d" % cp_ids[j] if rng.random() < 0.5 else "checkpoint:{%s}" % cp_alias[j]

    def pref(p):
        return "party:%d" % party_ids[p] if rng.random() < 0.5 else "party:{%s}" % party_name[p]

    th = case.get("threads")
    keys = sorted(set(d[1] for c in cps for d in c["deps"] if d[0] == "cmp"))
    dep_obj, cap_text = {}, {}
    for k in keys:
        l, r = next((d[2], d[3]) for c in cps for d in c["deps"] if d[0] == "cmp" and d[1] == k)
        left = {"ref": aref(l) + ".object_promise.n%d" % k} if l is not None else {"value": k}
        right = {"ref": aref(r) + ".object_promise.m%d" % k} if r is not None else {"value": 1000 + k}
        op = rng.choice(NUM_OPS)
        if th and k == th["kT"]:
            left, right, op = {"ref": aref(l) + ".object_promise"}, {"value": None}, "DOES_NOT_EQUAL"
        elif l is None and r is None:
            left = {"ref": "$edge.number"}           # thread variable: not an action operand
        elif (l is None) != (r is None) and rng.random() < 0.3:
            # the literal is a LIST of numbers (ints and a decimal), compared by membership / containment
            lst = [k, k + 1, 2.5][:rng.randint(1, 3)]
            if r is None:
                right, op = {"value": lst}, rng.choice(["ONE_OF", "NONE_OF"])
            else:
                left, op = {"value": lst}, rng.choice(["CONTAINS", "DOES_NOT_CONTAIN"])
        # the optional operand property "context" (TEMPLATE / RUNTIME) changes nothing about which action a
        # dependency waits for
        for side in (left, right):
            if "ref" in side and side["ref"].startswith("action:") and rng.random() < 0.2:
                side["context"] = "RUNTIME"
        obj = {"compare": {"left": left, "right": right, "operator": op}}
        if rng.random() < 0.3:
            obj["description"] = "dependency %d" % k
        dep_obj[k] = obj
        cap_text[k] = "%s %s %s" % (left.get("ref", left.get("value")), OP_TEXT[op], right.get("ref", right.get("value")))

    doc = {
        "standard": "graph correspondence case",
        "terms": [],
        "parties": [],
        "object_types": [{"id": 0, "name": "Placeholder", "attributes":
                          [{"name": "completed", "type": "BOOLEAN"}]
                          + [{"name": "%s%d" % (p, k), "type": "NUMERIC"} for k in keys for p in "nm"]}],
        "object_promises": [],
        "pipelines": [],
        "actions": [],
        "thread_groups": [],
        "checkpoints": [],
    }
    for i, c in enumerate(case["parties"]):
        p = {"id": party_ids[i], "name": party_name[i]}
        if c is not None:
            p["hex_code"] = _hex(c)
        doc["parties"].append(p)
    if th:
        doc["object_types"] += [
            {"id": 1, "name": "Bag", "attributes": [{"name": "edges", "type": "EDGE_COLLECTION",
                                                     "object_type": "object_type:2"}]},
            {"id": 2, "name": "Item", "attributes": [{"name": "number", "type": "NUMERIC"}]}]
        doc["thread_groups"].append({"id": 2, "name": "threads", "description": "",
                                     "spawn": {"foreach": "object_promise:%d.edges" % th["s0"], "as": "$edge"},
                                     "depends_on": cref(th["cpt"])})
    for a in acts:
        op_ = {"id": a["id"], "name": "promise %d" % a["id"], "object_type": "object_type:{Placeholder}"}
        o = {"id": a["id"], "name": act_name[a["id"]], "description": "A%d" % a["id"],
             "object_promise": ("object_promise:%d" % a["id"]) if rng.random() < 0.5
             else "object_promise:{promise %d}" % a["id"],
             "operation": {"exclude": None}}
        if th and a["id"] == th["s0"]:
            op_["object_type"] = "object_type:{Bag}"
            o["operation"] = {"include": None}
        if th and a["id"] == th["at"]:
            op_["object_type"] = "object_type:{Item}"
            op_["context"] = "thread_group:2"
            o["context"] = "thread_group:{threads}" if rng.random() < 0.5 else "thread_group:2"
            o["operation"] = {"include": ["number"]}
        doc["object_promises"].append(op_)
        if a["party"] is not None:
            o["party"] = pref(a["party"])
        if a["dep"] is not None:
            o["depends_on"] = cref(a["dep"])
        if a["info"]:
            o["supporting_info"] = ["info a", "info b"]
        doc["actions"].append(o)
    cp_desc = {}
    for j, c in enumerate(cps):
        o = {"id": cp_ids[j], "alias": cp_alias[j], "description": "CP%d" % c["key"], "dependencies": []}
        cp_desc[c["key"]] = o["description"]
        if rng.random() < 0.25:
            o["abbreviated_description"] = "cp%d" % c["key"]
            cp_desc[c["key"]] = o["abbreviated_description"]
        if c["gate"] is not None:
            o["gate_type"] = c["gate"]
        if c["info"]:
            o["supporting_info"] = ["info c"]
        if th and j == th["cpv"]:
            o["context"] = "thread_group:2"
        for d in c["deps"]:
            if d[0] == "cmp":
                o["dependencies"].append(copy.deepcopy(dep_obj[d[1]]))
            else:
                o["dependencies"].append({"checkpoint": cref(d[1])})
        doc["checkpoints"].append(o)
    case["render"] = {
        "alias": cp_alias,
        "cap_dep": {cap_text[k]: k for k in keys},
        "cap_cp": {v: k for k, v in cp_desc.items()},
        "hex": {_hex(c): c for c in range(10)},
        "some_party": pref(0),
    }
    assert len(case["render"]["cap_dep"]) == len(keys)
    return doc


def validity_variant(case, doc):
    """The validator requires "party" on every action; the graph code (and C20) also cover actions that
    name no party.  Such documents are run with validate_schema=False; the validator is asked about the
    variant in which the missing party references are filled in."""
    if all(a["party"] is not None for a in case["actions"]):
        return doc, True
    d = copy.deepcopy(doc)
    for o in d["actions"]:
        o.setdefault("party", case["render"]["some_party"])
    return d, False


# ----------------------------------------------------------------------------------------------- implementation

_WORKER = r"""
import sys, os, json, tempfile, shutil
repo = sys.argv[1]
sys.path.insert(0, repo)
os.chdir(repo)
import requests
import time as _time
_time.sleep = lambda *a, **k: None      # the board service is stubbed: waiting for it is pointless
from visualization.dependency_graph import DependencyGraph
from validation.schema_validator import SchemaValidator

scratch = tempfile.mkdtemp(prefix="ois-graph-corr-", dir="/var/tmp")
json.dump({"access_token": "x"}, open(os.path.join(scratch, "tokens.json"), "w"))


from copy import deepcopy as _deepcopy


class Recorder:
    def __init__(self, script):
        self.calls, self.script = [], script

    def post(self, url, json=None, headers=None):
        k = len(self.calls)
        if k > 3000:
            raise RuntimeError("more than 3000 requests for one board")
        kind = self.script[k] if k < len(self.script) else 100000 + k
        self.calls.append((url, _deepcopy(json)))      # the payload as it is at request time

        # error bodies of the board service come in several shapes (all carry type "error"); which one is used
        # depends only on the position of the first error in the script
        if kind == "err":
            first = self.script.index("err")
            body = ['{"type": "error", "message": "scripted error"}',
                    '{"type": "error", "status": 429, "code": "tooManyRequests", "message": "rate limit exceeded"}',
                    '{"type": "error", "status": 500, "code": "internalError", "message": "internal error", "context": {"id": "77"}}',
                    '{"id": "5", "type": "error", "status": 400, "message": "invalid payload"}'][first % 4]
        else:
            body = '{"id": "%d"}' % kind

        class Response:
            text = body

        return Response()


def abstract(url, p):
    try:
        return abstract_(url, p)
    except BaseException as e:
        # a request the implementation should never send (e.g. an item id that is None): kept as it is, so that the
        # comparison with the expected sequence reports it
        return ["malformed", url.rsplit("/", 1)[-1], "%s: %s" % (type(e).__name__, str(e)[:80])]


def abstract_(url, p):
    if url.endswith("/boards"):
        return ["board"]
    if url.endswith("/connectors"):
        cap = p["captions"][0]["content"] if "captions" in p else None
        return ["conn", int(p["startItem"]["id"]), int(p["endItem"]["id"]), cap, p["style"]["endStrokeCap"]]
    if url.endswith("/shapes"):
        pos = p["position"]
        if "content" not in p["data"]:
            return ["elbow", pos["x"], pos["y"]]
        return ["shape", p["data"]["shape"], pos["x"], pos["y"], p["style"]["fillColor"], p["data"]["content"]]
    return ["other", url]


jobs = json.load(sys.stdin)
out = []
real_stdout = sys.stdout
sys.stdout = sys.stderr          # the implementation prints validation errors
try:
    for job in jobs:
        res = {}
        os.chdir(repo)
        try:
            errs = SchemaValidator().validate(schema_dict=json.loads(json.dumps(job["valid_doc"])))
            res["valid"] = True if not errs else [str(e)[:300] for e in errs[:5]]
        except BaseException as e:
            res["valid"] = "raise %s: %s" % (type(e).__name__, str(e)[:200])
        try:
            g = DependencyGraph(schema_dict=json.loads(json.dumps(job["doc"])), validate_schema=job["validate"])
        except BaseException as e:
            res["raise"] = "%s: %s" % (type(e).__name__, str(e)[:300])
            out.append(res)
            continue
        res["actions"] = list(g.actions.keys())
        res["gates"] = [[k, v] for k, v in g.gates.items()]
        res["edges"] = [[a, b] for a, b in g.edge_tuples]
        res["edict"] = [[k, v] for k, v in g.edge_dict.items()]
        res["caps"] = [[list(k), v] for k, v in g.edge_captions.items()]
        res["coords"] = [[k, v[0], v[1]] for k, v in g.node_coordinates.items()]
        res["runs"] = []
        os.chdir(scratch)
        for script in job["scripts"]:
            rec = Recorder(script)
            requests.post = rec.post
            status = "finished"
            try:
                g.generate_miro_board(board_name="corr")
            except BaseException as e:
                status = "raised %s: %s" % (type(e).__name__, str(e)[:100])
            res["runs"].append({"requests": [abstract(u, p) for u, p in rec.calls], "status": status})
        out.append(res)
finally:
    os.chdir(repo)
    shutil.rmtree(scratch, ignore_errors=True)
    sys.stdout = real_stdout
json.dump(out, sys.stdout)
"""


def run_impl(repo_root, jobs):
    """jobs: [{"doc", "valid_doc", "validate", "scripts": [[id | "err", ...], ...]}].  Runs the
    implementation found under repo_root in a fresh interpreter."""
    env = dict(os.environ)
    env["PYTHONDONTWRITEBYTECODE"] = "1"
    env["PYTHONWARNINGS"] = "ignore"
    py = PY if os.path.exists(PY) else sys.executable
    r = subprocess.run([py, "-W", "ignore", "-c", _WORKER, repo_root], input=json.dumps(jobs),
                       capture_output=True, text=True, env=env, cwd=repo_root, timeout=120 + 5 * len(jobs))
    if r.returncode != 0:
        raise RuntimeError("implementation runner failed: " + r.stderr[-3000:])
    return json.loads(r.stdout)


def make_job(case, doc, rng, n_requests_hint=60):
    valid_doc, full = validity_variant(case, doc)
    ok = lambda m: [1000 + 3 * i + (i * i) % 3 for i in range(m)]
    scripts = [ok(400)]
    for k in sorted(set([0, 1, rng.randint(2, 8), rng.randint(5, n_requests_hint)])):
        s = ok(400)
        s[k] = "err"
        if rng.random() < 0.5:
            # the service keeps answering with the error (whatever is sent again or next is refused as well)
            s = s[:k] + ["err"] * (len(s) - k)
        scripts.append(s)
    return {"doc": doc, "valid_doc": valid_doc, "validate": full, "scripts": scripts}



# ----------------------------------------------------------------------------------------------- Coq file

def _z(v):
    iv = int(round(v))
    if abs(iv - v) > 1e-9:
        raise ValueError("non-integral board coordinate %r" % v)
    return "(%d)%%Z" % iv


def _opt(v, f=str):
    return "None" if v is None else "(Some %s)" % f(v)


def _lst(items):
    return "[" + "; ".join(items) + "]"


def coq_schema(case):
    acts = _lst("{| a_id := %d; a_dep := %s; a_party := %s; a_info := %s |}"
                % (a["id"], _opt(a["dep"]), _opt(a["party"]), "true" if a["info"] else "false")
                for a in case["actions"])
    cps = []
    for c in case["cps"]:
        deps = _lst(("DCmp %d %s %s" % (d[1], _opt(d[2]), _opt(d[3]))) if d[0] == "cmp" else "DRef %d" % d[1]
                    for d in c["deps"])
        cps.append("{| c_key := %d; c_gate := %s; c_deps := %s; c_info := %s |}"
                   % (c["key"], _opt(c["gate"], lambda g: COQ_GATE[g]), deps, "true" if c["info"] else "false"))
    parties = _lst(_opt(p) for p in case["parties"])
    return "{| s_actions := %s; s_cps := %s; s_parties := %s |}" % (acts, _lst(cps), parties)


class Abstraction:
    """maps the strings of the implementation back to the abstract names of the case"""

    def __init__(self, case):
        self.case, self.r = case, case["render"]
        self.act_ids = set(a["id"] for a in case["actions"])

    def node(self, s):
        if s in self.r["alias"]:
            j = self.r["alias"].index(s)
            if s.isdigit() and int(s) in self.act_ids:
                raise ValueError("alias %r is also an action id" % s)
            return "NGate %d" % j
        return "NAct %d" % int(s)

    def cap(self, text):
        if text in self.r["cap_dep"]:
            return "CapDep %d" % self.r["cap_dep"][text]
        return "CapCp %d" % self.r["cap_cp"][text]

    def colour(self, text):
        if _norm_hex(text) == "#ffffff":
            return "White"
        byn = {_norm_hex(k): v for k, v in self.r["hex"].items()}
        if _norm_hex(text) in byn:
            return "Hex %d" % byn[_norm_hex(text)]
        raise ValueError("unknown colour " + text)


def coq_graph(case, res):
    ab = Abstraction(case)
    caps_by_tuple = {(f, t): list(v) for (f, t), v in [(tuple(k), v) for k, v in res["caps"]]}
    # the caption appended by the i-th _add_edge call: captions of a tuple are appended in call order
    seen = {}
    ledges = []
    for f, t in res["edges"]:
        i = seen.get((f, t), 0)
        seen[(f, t)] = i + 1
        ledges.append("(%s, %s, %s)" % (ab.node(f), ab.node(t), ab.cap(caps_by_tuple[(f, t)][i])))
    for k, v in caps_by_tuple.items():
        if len(v) != seen.get(k, 0):
            raise ValueError("captions and occurrences differ for %r" % (k,))
    return ("{| g_actions := %s; g_gates := %s; g_ledges := %s; g_edict := %s; g_caps := %s |}" % (
        _lst(str(int(a)) for a in res["actions"]),
        _lst("(%d, %s)" % (ab.r["alias"].index(k), COQ_GATE[v]) for k, v in res["gates"]),
        _lst(ledges),
        _lst("(%s, %s)" % (ab.node(k), _lst(ab.node(x) for x in v)) for k, v in res["edict"]),
        _lst("((%s, %s), %s)" % (ab.node(k[0]), ab.node(k[1]), _lst(ab.cap(c) for c in v)) for k, v in res["caps"])))


def coq_requests(case, res, run):
    ab = Abstraction(case)
    by_pos = {}
    for k, x, y in res["coords"]:
        by_pos.setdefault((x * 400, y * 100), []).append(k)
    gate_type = dict((k, v) for k, v in res["gates"])
    out = []
    last = None
    for q in run["requests"]:
        if q[0] == "board":
            out.append("CreateBoard")
        elif q[0] == "malformed":
            out.append("CreateBoard")      # reported by spec_check; any placeholder makes the comparison fail
        elif q[0] == "elbow":
            out.append("Elbow %s %s" % (_z(q[1]), _z(q[2])))
        elif q[0] == "conn":
            out.append("Connector (%d)%%Z (%d)%%Z %s %s" % (q[1], q[2], _opt(q[3], lambda c: "(%s)" % ab.cap(c)),
                                                 "true" if q[4] == "none" else "false"))
        elif q[0] == "shape":
            _, shape, x, y, fill, content = q
            if shape == "round_rectangle":
                n = "NAct %d" % int(content[1:])
                out.append("Shape (%s) %s %s (%s) (CAction %d)" % (n, _z(x), _z(y), ab.colour(fill), int(content[1:])))
                last = n
            elif shape == "circle":
                cands = [k for k in by_pos.get((x, y), []) if k in gate_type]
                if len(cands) != 1:
                    raise ValueError("gate shape position %r matches %r" % ((x, y), cands))
                if GATE_COLORS[content] != fill:
                    raise ValueError("gate fill colour")
                n = ab.node(cands[0])
                out.append("Shape (%s) %s %s (GateColour %s) (CGate %s)" % (n, _z(x), _z(y), COQ_GATE[content], COQ_GATE[content]))
                last = n
            elif shape == "wedge_round_rectangle_callout":
                if fill != "#D0E78C" or not content.startswith("- info"):
                    raise ValueError("supporting info shape")
                out.append("Support (%s) %s %s" % (last, _z(x), _z(y)))
            else:
                raise ValueError("shape " + shape)
        else:
            raise ValueError("request " + repr(q))
    return _lst(out), ("Finished" if run["status"] == "finished" else "Aborted")


def coq_case(case, job, res):
    """(schema, expected graph option, coords, [(script, requests, status)])"""
    if "raise" in res:
        return "(%s, None, [], [])" % coq_schema(case)
    ab = Abstraction(case)
    coords = _lst("(%s, (%s, %s))" % (ab.node(k), _z(x), _z(2 * y)) for k, x, y in res["coords"])
    runs = []
    for script, run in zip(job["scripts"], res["runs"]):
        reqs, status = coq_requests(case, res, run)
        sc = _lst("RErr" if v == "err" else "ROk (%d)%%Z" % v for v in script[:len(run["requests"]) + 3])
        runs.append("(%s, %s, %s)" % (sc, reqs, status))
    return "(%s, Some %s, %s, %s)" % (coq_schema(case), coq_graph(case, res), coords, _lst(runs))


def coq_file(cases, results, jobs=None):
    assert len(cases) == len(results) and len(cases) <= MAX_CASES_PER_FILE
    jobs = jobs or [c["job"] for c in cases]
    lines = [
        "(* generated by harness/corr/graph.py -- do not edit *)",
        "From Coq Require Import List Arith ZArith Bool.",
        "From OIS Require Import Model.Graph Model.Board Spec.GraphSpec.",
        "Import ListNotations.",
        "Definition run_t := (list response * list request * status)%type.",
        "Definition case_t := (schema * option graph * list (node * (Z * Z)) * list run_t)%type.",
        "Definition run_ok (s : schema) (g : graph) (co : list (node * (Z * Z))) (r : run_t) : bool :=",
        "  let '(script, reqs, st) := r in",
        "  let '(mreqs, mst) := emit s g (coords_of co) true script in",
        "  list_eqb request_eqb mreqs reqs && status_eqb mst st.",
        "Definition agree (c : case_t) : bool :=",
        "  let '(s, eg, co, runs) := c in",
        "  match build s, eg with",
        "  | Ok g, Some g' => wf s && graph_eqb g g' && forallb (run_ok s g co) runs",
        "  | Raise, None => true",
        "  | _, _ => false",
        "  end.",
        "Definition cases : list case_t := [",
    ]
    def safe_case(c, j, r):
        try:
            return coq_case(c, j, r)
        except (ValueError, IndexError, KeyError, TypeError) as e:
            # the implementation's output cannot be expressed in the model's vocabulary (e.g. fewer captions than
            # parallel edges): the case is printed as "implementation raised", which disagrees with a model that builds
            c.setdefault("unabstractable", "%s: %s" % (type(e).__name__, str(e)[:120]))
            return "(%s, None, [], [])" % coq_schema(c)
    lines.append(";\n".join("  " + safe_case(c, j, r) for c, j, r in zip(cases, jobs, results)))
    lines += [
        "].",
        "Definition failing : list nat :=",
        "  map fst (filter (fun ic => negb (agree (snd ic))) (combine (seq 0 (length cases)) cases)).",
        "Eval vm_compute in failing.",
        "",
    ]
    return "\n".join(lines)


def parse_failing(out):
    m = re.search(r"=\s*(\[.*?\])\s*:\s*list nat", out, re.S)
    if not m:
        return None
    body = m.group(1).strip()[1:-1].strip()
    return [int(x.replace("%nat", "").strip()) for x in body.split(";")] if body else []


def compare(cases, results, workdir, name="graph_cases", theories="/verif/coq/theories", timeout=900, jobs=None):
    path = os.path.join(workdir, name + ".v")
    with open(path, "w") as f:
        f.write(coq_file(cases, results, jobs))
    r = subprocess.run(["timeout", str(timeout), "coqc", "-Q", theories, "OIS", "-w", "-notation-overridden", path],
                       capture_output=True, text=True, cwd=workdir)
    out = r.stdout + r.stderr
    if r.returncode != 0:
        return None, out
    return parse_failing(out), out


# ----------------------------------------------------------------------------------------------- spec oracle

def _spec(case):
    """explicit dependencies, their closure and the gates in use, straight from the abstract schema"""
    cps = case["cps"]
    by_id = {a["id"]: a for a in case["actions"]}
    gates, direct = {}, {}

    def visit(j, acc, seen):
        if j in seen:
            return
        seen.add(j)
        if len(cps[j]["deps"]) > 1:
            gates[j] = cps[j]["gate"]
        for d in cps[j]["deps"]:
            if d[0] == "cmp":
                acc.update(v for v in (d[2], d[3]) if v is not None)
            else:
                visit(d[1], acc, seen)

    for a in case["actions"]:
        acc = set()
        if a["dep"] is not None:
            visit(a["dep"], acc, set())
        direct[a["id"]] = acc
    closure = {}
    for a in direct:
        seen, stack = set(), list(direct[a])
        while stack:
            v = stack.pop()
            if v not in seen:
                seen.add(v)
                stack.extend(direct[v])
        closure[a] = seen
    return closure, gates


def spec_check(case, res):
    """C19 and C20 checked directly on what the implementation produced (no model involved)."""
    from collections import Counter
    if "raise" in res:
        return "C19: building the graph raised: " + res["raise"]
    r = case["render"]
    closure, gates = _spec(case)
    act_nodes = [str(a["id"]) for a in case["actions"]]
    gate_nodes = {r["alias"][j]: g for j, g in gates.items()}
    if sorted(res["actions"]) != sorted(act_nodes) or len(set(res["actions"])) != len(res["actions"]):
        return "C19: action nodes %r" % res["actions"]
    if dict((k, v) for k, v in res["gates"]) != gate_nodes:
        return "C19: gates %r, expected %r" % (res["gates"], gate_nodes)
    if set(act_nodes) & set(gate_nodes):
        return "C19: a gate and an action share a node name"
    nodes = set(act_nodes) | set(gate_nodes)
    coords = {k: (x, y) for k, x, y in res["coords"]}
    if set(coords) != nodes:
        return "C19: nodes without / with spurious coordinates: %r" % sorted(set(coords) ^ nodes)
    adj = {}
    for f, t in res["edges"]:
        if f not in nodes or t not in nodes:
            return "C19: edge endpoint is not a node: %r" % ((f, t),)
        adj.setdefault(f, []).append(t)
    for a in act_nodes:
        seen, stack = set(), list(adj.get(a, []))
        while stack:
            v = stack.pop()
            if v not in seen:
                seen.add(v)
                stack.extend(adj.get(v, []))
        got = set(int(v) for v in seen if v not in gate_nodes)
        if got != closure[int(a)]:
            return "C19: reachable from %s: %r, explicit dependency closure: %r" % (a, sorted(got), sorted(closure[int(a)]))
    # ---- C20
    mult = Counter((f, t) for f, t in res["edges"])
    n_info = sum(1 for a in case["actions"] if a["info"]) + sum(1 for j in gates if case["cps"][j]["info"])
    total = 1 + len(nodes) + n_info + sum(1 if k == 1 else 3 * k for k in mult.values())
    for run in res["runs"]:
        for q in run["requests"]:
            if q[0] == "malformed":
                return "C20: malformed %s request (%s)" % (q[1], q[2])
    for run in res["runs"]:
        reqs = run["requests"]
        if run["status"] != "finished":
            # the scripted error is at position len(reqs)-1: nothing may be sent afterwards
            continue
        if len(reqs) != total:
            return "C20: %d requests, expected %d" % (len(reqs), total)
        ids = run.get("ids")
    run = res["runs"][0]
    if run["status"] != "finished":
        return "C20: error-free run ended with " + run["status"]
    script = case["job"]["scripts"][0]
    shape_of, pos_of, elbows = {}, {}, {}
    by_pos = {}
    for k, (x, y) in coords.items():
        by_pos.setdefault((x * 400, y * 100), []).append(k)
    party = {a["id"]: a["party"] for a in case["actions"]}
    conns = []
    for i, q in enumerate(run["requests"]):
        rid = script[i]
        if q[0] == "shape" and q[1] == "round_rectangle":
            n = str(int(q[5][1:]))
            if n in shape_of.values():
                return "C20: two shapes for action " + n
            if (q[2], q[3]) != (coords[n][0] * 400, coords[n][1] * 100):
                return "C20: action %s drawn at %r" % (n, (q[2], q[3]))
            p = party[int(n)]
            want = "#ffffff" if p is None or case["parties"][p] is None else _hex(case["parties"][p])
            if not isinstance(q[4], str) or _norm_hex(q[4]) != _norm_hex(want):
                return "C20: action %s filled %s, expected %s" % (n, q[4], want)
            shape_of[rid] = n
        elif q[0] == "shape" and q[1] == "circle":
            cands = [k for k in by_pos.get((q[2], q[3]), []) if k in gate_nodes and k not in shape_of.values()]
            if not cands:
                return "C20: gate shape at %r matches no gate" % ((q[2], q[3]),)
            n = [k for k in cands if gate_nodes[k] == q[5]]
            if not n:
                return "C20: gate labelled %s" % q[5]
            shape_of[rid] = n[0]
        elif q[0] == "elbow":
            elbows[rid] = (q[1], q[2])
        elif q[0] == "conn":
            conns.append(q)
    if sorted(shape_of.values()) != sorted(nodes):
        return "C20: shapes drawn for %r" % sorted(shape_of.values())
    direct, ins, outs, captions = [], {}, {}, {}
    cap_by_tuple = {tuple(k): list(v) for k, v in res["caps"]}
    for _, s, e, cap, endcap in conns:
        if s in shape_of and e in shape_of:
            direct.append((shape_of[s], shape_of[e]))
            if cap is None:
                return "C20: uncaptioned connector %r" % ((shape_of[s], shape_of[e]),)
            captions.setdefault((shape_of[s], shape_of[e]), []).append(cap)
        elif s in shape_of and e in elbows and e not in ins:
            ins[e] = (shape_of[s], cap)
            if endcap != "none":
                return "C20: first segment of a chain ends in an arrow head"
        elif s in elbows and e in shape_of and s not in outs:
            outs[s] = (shape_of[e], cap)
        else:
            return "C20: stray connector %r -> %r" % (s, e)
    if set(ins) != set(elbows) or set(outs) != set(elbows):
        return "C20: an elbow is not connected on both sides"
    chains = Counter(direct)
    points = {}
    for e in elbows:
        t = (ins[e][0], outs[e][0])
        chains[t] += 1
        points.setdefault(t, []).append(elbows[e])
        caps = [c for c in (ins[e][1], outs[e][1]) if c is not None]
        if len(caps) != 1:
            return "C20: a chain carries %d captions" % len(caps)
        captions.setdefault(t, []).append(caps[0])
    if chains != mult:
        return "C20: chains %r, edges %r" % (dict(chains), dict(mult))
    for t, ps in points.items():
        if len(set(ps)) != len(ps):
            return "C20: parallel chains of %r share an intermediate point" % (t,)
        if mult[t] < 2:
            return "C20: elbow on a single edge"
    for t, cs in captions.items():
        if Counter(cs) != Counter(cap_by_tuple.get(t, [])):
            return "C20: captions of %r" % (t,)
    # errors abort
    for script, run in zip(case["job"]["scripts"][1:], res["runs"][1:]):
        k = script.index("err")
        if k < total:
            if not run["status"].startswith("raised") or len(run["requests"]) != k + 1:
                return "C20: error response at %d: status %s after %d requests" % (k, run["status"], len(run["requests"]))
        elif run["status"] != "finished":
            return "C20: run without a consumed error ended with " + run["status"]
    return None


# ----------------------------------------------------------------------------------------------- known finding

def kf_alias_collision(doc):
    """Known finding (C19): action nodes (str(id)) and gate nodes (checkpoint alias) live in one string
    namespace.  True iff some multi-dependency checkpoint IN USE (reachable from an action's depends_on
    through nested checkpoint references) has an alias equal to str(id) of an action.
    Witness: /verif/corpus/C19/alias_equals_action_id.json"""
    try:
        cps = doc.get("checkpoints", [])
        acts = doc.get("actions", [])

        def resolve(ref):
            m = re.match(r"^checkpoint:(\{(.+)\}|(\d+))$", ref) if isinstance(ref, str) else None
            if not m:
                return None
            for c in cps:
                if m.group(2) is not None and c.get("alias") == m.group(2):
                    return c
                if m.group(3) is not None and str(c.get("id")) == m.group(3):
                    return c
            return None

        ids = set(str(a.get("id")) for a in acts)
        seen, stack = [], [resolve(a.get("depends_on")) for a in acts if "depends_on" in a]
        while stack:
            c = stack.pop()
            if c is None or any(c is x for x in seen):
                continue
            seen.append(c)
            for d in c.get("dependencies", []):
                if isinstance(d, dict) and "checkpoint" in d:
                    stack.append(resolve(d["checkpoint"]))
        return any(len(c.get("dependencies", [])) > 1 and str(c.get("alias")) in ids for c in seen)
    except Exception:
        return False


# ----------------------------------------------------------------------------------------------- pipeline

def prepare(rng, n, repo_root):
    """n abstract cases whose rendering the real SchemaValidator accepts, with jobs and implementation results.
    Returns (cases, results, n_discarded)."""
    cases, results, discarded, rejected = [], [], 0, []
    while len(cases) < n:
        batch = gen_cases(rng, min(200, max(20, n - len(cases))))
        jobs = []
        for c in batch:
            doc = render(c, rng)
            c["job"] = make_job(c, doc, rng)
            jobs.append(c["job"])
        res = run_impl(repo_root, jobs)
        for c, r in zip(batch, res):
            if r["valid"] is True:
                if len(cases) < n:
                    cases.append(c)
                    results.append(r)
            else:
                discarded += 1
                rejected.append((c, r["valid"]))
    return cases, results, discarded, rejected


def case_stats(cases, results):
    from collections import Counter
    st = Counter()
    for c, r in zip(cases, results):
        st["cases"] += 1
        st["actions"] += len(c["actions"])
        st["checkpoints"] += len(c["cps"])
        st["gates"] += sum(1 for x in c["cps"] if len(x["deps"]) > 1)
        st["nested_refs"] += sum(1 for x in c["cps"] for d in x["deps"] if d[0] == "ref")
        st["two_action_operands"] += sum(1 for x in c["cps"] for d in x["deps"] if d[0] == "cmp" and d[2] is not None and d[3] is not None)
        keys = [d[1] for x in c["cps"] for d in x["deps"] if d[0] == "cmp"]
        st["repeated_dependency_objects"] += len(keys) - len(set(keys))
        st["partyless_actions"] += sum(1 for a in c["actions"] if a["party"] is None)
        st["variable_only_comparisons"] += sum(1 for x in c["cps"] for d in x["deps"] if d[0] == "cmp" and d[2] is None and d[3] is None)
        st["no_validate_runs"] += 0 if c["job"]["validate"] else 1
        if "raise" in r:
            st["impl_raised"] += 1
            continue
        from collections import Counter as C2
        m = C2(tuple(e) for e in r["edges"])
        st["edges"] += len(r["edges"])
        st["parallel_tuples"] += sum(1 for v in m.values() if v > 1)
        st["requests_ok_run"] += len(r["runs"][0]["requests"])
        st["runs"] += len(r["runs"])
        st["aborted_runs"] += sum(1 for x in r["runs"] if x["status"] != "finished")
    return dict(st)


if __name__ == "__main__":
    import tempfile, shutil
    seed = int(sys.argv[1]) if len(sys.argv) > 1 else 20260930
    n = int(sys.argv[2]) if len(sys.argv) > 2 else 600
    repo = os.environ.get("VERIF_REPO", "/repo")
    rng = random.Random(seed)
    cases, results, discarded, rejected = prepare(rng, n, repo)
    work = tempfile.mkdtemp(prefix="ois-graph-corr-", dir="/var/tmp")
    bad, spec_bad, compared = [], [], 0
    try:
        for k in range(0, len(cases), MAX_CASES_PER_FILE):
            cs, rs = cases[k:k + MAX_CASES_PER_FILE], results[k:k + MAX_CASES_PER_FILE]
            failing, out = compare(cs, rs, work, name="graph_cases_%d" % (k // MAX_CASES_PER_FILE))
            if failing is None:
                print("coqc failed:\n" + out[-3000:])
                sys.exit(2)
            compared += len(cs)
            bad += [k + i for i in failing]
        for i, (c, r) in enumerate(zip(cases, results)):
            msg = spec_check(c, r)
            if msg:
                spec_bad.append((i, msg))
    finally:
        shutil.rmtree(work, ignore_errors=True)
    print("stats:", json.dumps(case_stats(cases, results)))
    print("discarded %d generated cases whose rendering the validator rejected" % discarded)
    for c, why in rejected[:3]:
        print("  rejected:", why)
    print("compared %d cases (model vs implementation): %d disagreements" % (compared, len(bad)))
    for i in bad[:5]:
        c = {k: v for k, v in cases[i].items() if k not in ("job", "render")}
        print("  DISAGREE case %d: %s" % (i, json.dumps(c)))
    print("spec_check on the implementation's output: %d violations" % len(spec_bad))
    for i, msg in spec_bad[:5]:
        c = {k: v for k, v in cases[i].items() if k not in ("job", "render")}
        print("  SPEC case %d: %s: %s" % (i, msg, json.dumps(c)))
    sys.exit(0 if not bad and not spec_bad else 1)
