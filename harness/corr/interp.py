"""Correspondence harness for the STRUCTURAL layer of the validator (property C11).

Compares the Gallina interpreter OIS.Model.Interp.interp, run on the specification terms that
tools/gen_specs.py dumps from the repository (OIS.Gen.Specs), with the implementation's own generic
interpreter (_validate_object & co. of validation/schema_validator.py) run in isolation on the same documents.

  structural_validator(repo_root) -> f(doc) -> bool        accepted by the REAL structural layer (f.verdict: accept|reject|raise)
  gen_cases(rng, n, repo_root)    -> [{"doc", "kind", "base", "path", "inert"}, ...]
  run_impl(repo_root, cases)      -> [bool, ...]            (fresh interpreter process, so imports never mix)
  coq_file(cases, results)        -> text of a Coq file ending in ONE `Eval vm_compute in failing.`
  inert_violations(cases, results, base_ok) -> indices of inert additions that turned an accepted base into a rejected document

Isolation of the structural layer (harness side only, nothing in the repository is edited): a subclass of
SchemaValidator in which every function named by a `validation_functions` entry returns [] - except
validate_singular_dependency, which is structural -, `_validate_unique` returns [], and reference RESOLUTION always
succeeds (`_resolve_global_ref`, `_resolve_type_from_local_ref`, `_resolve_type_from_filter_ref` return a non-None
dummy).  The entry point is `_validate_object("root", doc, obj_specs.root_object)` exactly as in validate().
An exception counts as "not accepted" (it is not a validation with an empty error list).

Strings are ASCII (see Model/Regex.v); shipped schemas containing non-ASCII text are not used as bases.
"""
import os, sys, json, copy, random, subprocess, glob, tempfile, shutil, time

HERE = os.path.dirname(os.path.abspath(__file__))
VERIF = os.path.abspath(os.path.join(HERE, "..", ".."))
TOOLS = os.path.join(VERIF, "tools")
COQ = os.path.join(VERIF, "coq")
PY = "/venv/bin/python"
MAX_CASES_PER_FILE = 150
STRUCTURAL_FUNCTIONS = ("validate_singular_dependency",)


def _gen_specs():
    if TOOLS not in sys.path:
        sys.path.insert(0, TOOLS)
    import gen_specs
    return gen_specs


# ------------------------------------------------------------------------------------------ implementation
def structural_validator(repo_root):
    repo_root = os.path.abspath(repo_root)
    g = _gen_specs().Gen(repo_root).run()       # puts repo_root first on sys.path and (re)imports its modules
    semantic = sorted(n for n in g.function_names if n not in STRUCTURAL_FUNCTIONS)
    from validation.schema_validator import SchemaValidator
    from validation import obj_specs

    class Structural(SchemaValidator):
        def _validate_unique(self, path, field, obj_spec):
            return []

        def _resolve_global_ref(self, ref):
            return {}

        def _resolve_type_from_local_ref(self, *a, **k):
            return {}

        def _resolve_type_from_filter_ref(self, *a, **k):
            return {}

    for name in semantic:
        setattr(Structural, name, lambda self, *a, **k: [])

    def verdict(doc):
        v = Structural()
        v.schema = copy.deepcopy(doc)
        # what validate() initialises before calling _validate_object (collection of actions/checkpoints is
        # bookkeeping for the semantic rules and is skipped)
        v._psuedo_checkpoints = []
        v._generated_checkpoints = []
        v._pipelines, v._aggregated_fields, v._type_details_at_path = {}, {}, {}
        v._path_context, v._context_path = "", None
        v._import_failures, v._unused_imports = [], []
        v.warnings = []
        if isinstance(v.schema, dict):
            v.schema["imported_schemas"] = {}
        try:
            errs = v._validate_object("root", v.schema, obj_specs.root_object)
        except RecursionError:
            return "raise"
        except Exception:
            return "raise"
        return "accept" if errs == [] else "reject"

    def accepted(doc):
        return verdict(doc) == "accept"

    accepted.verdict = verdict
    accepted.semantic_functions = semantic
    return accepted


def full_validator(repo_root):
    """doc -> accept|reject|raise for the UNMODIFIED validator (SchemaValidator().validate)."""
    repo_root = os.path.abspath(repo_root)
    if repo_root not in sys.path:
        sys.path.insert(0, repo_root)
    os.chdir(repo_root)
    from validation.schema_validator import SchemaValidator

    shared = {"v": SchemaValidator()}

    def once(v, doc):
        try:
            errs = v.validate(schema_dict=copy.deepcopy(doc))
        except BaseException:
            return "raise"
        return "accept" if errs == [] else "reject"

    def verdict(doc):
        fresh = once(SchemaValidator(), doc)
        # ... and on the instance this worker keeps using for every document of its chunk (documents arrive in case
        # order): a document accepted THERE is accepted by the validator
        if doc is None:
            return fresh        # validate(schema_dict=None) means "no argument": an instance re-validates what it holds
        reused = once(shared["v"], doc)
        if reused != fresh:
            shared["v"] = SchemaValidator()
            if reused == "accept":
                return "accept"
        return fresh
    return verdict


def internal_aliases(repo_root):
    """doc -> aliases of every checkpoint the validator holds after validating doc (its own, the imported schemas',
    and the ones validation generated: pseudo-checkpoints of threads, stitched connection checkpoints)."""
    repo_root = os.path.abspath(repo_root)
    if repo_root not in sys.path:
        sys.path.insert(0, repo_root)
    os.chdir(repo_root)
    from validation.schema_validator import SchemaValidator

    def walk(node, out, depth=0):
        if depth > 12:
            return
        if isinstance(node, dict):
            cps = node.get("checkpoints")
            if isinstance(cps, list):
                for c in cps:
                    if isinstance(c, dict) and isinstance(c.get("alias"), str):
                        out.add(c["alias"])
            for k, v in node.items():
                if k in ("imported_schemas",) or depth == 0 and k == "imported_schemas":
                    walk(v, out, depth + 1)
                elif isinstance(v, dict) and k not in ("checkpoints",):
                    walk(v, out, depth + 1)

    def aliases(doc):
        v = SchemaValidator()
        try:
            v.validate(schema_dict=copy.deepcopy(doc))
        except BaseException:
            pass
        out = set()
        walk(getattr(v, "schema", None), out)
        for name in ("_psuedo_checkpoints", "_generated_checkpoints"):
            for x in getattr(v, name, None) or []:
                if isinstance(x, str):
                    out.add(x)
                elif isinstance(x, dict) and isinstance(x.get("alias"), str):
                    out.add(x["alias"])
        for k, c in (getattr(v, "_checkpoints", None) or {}).items():
            if isinstance(c, dict) and isinstance(c.get("alias"), str):
                out.add(c["alias"])
        return sorted(out)
    return aliases


def run_verdicts(repo_root, docs, mode="--worker"):
    """Verdict strings, computed by a fresh interpreter process per chunk (in parallel)."""
    from concurrent.futures import ThreadPoolExecutor
    ncpu = min(16, os.cpu_count() or 4)
    chunks = [docs[i:i + 64] for i in range(0, len(docs), 64)]

    def one(chunk):
        r = subprocess.run([PY, "-W", "ignore", os.path.abspath(__file__), mode, os.path.abspath(repo_root)],
                           input=json.dumps(chunk), capture_output=True, text=True, timeout=1200)
        if r.returncode != 0:
            raise RuntimeError("structural worker failed: " + r.stderr[-2000:])
        return json.loads(r.stdout)

    with ThreadPoolExecutor(max_workers=ncpu) as ex:
        out = []
        for part in ex.map(one, chunks):
            out.extend(part)
    return out


def run_impl(repo_root, cases):
    return [v == "accept" for v in run_verdicts(repo_root, [c["doc"] for c in cases])]


# ------------------------------------------------------------------------------------------ base documents
def synthetic_doc():
    """A structurally valid document exercising every entity kind and nesting level, including traversals,
    nested filters, operands, maps and imports.  It need not be semantically valid: only the structural layer
    is compared."""
    cmp_ = lambda l, op, r: {"compare": {"left": l, "operator": op, "right": r}}
    return {
        "standard": "synthetic structural fixture",
        "imports": [
            {"file_name": "basic_import",
             "connections": [{"to_ref": "schema:{basic_import}.action:0", "add_dependency": "checkpoint:0"},
                             {"to_ref": "schema:{basic_import}.checkpoint:{cp}", "add_dependency": "checkpoint:{two deps}"}]},
            {"file_name": "secondary import"},
        ],
        "terms": [{"name": "t", "description": "d", "attributes": ["a", "b"]}, {"name": "u", "description": "e"}],
        "parties": [{"id": 0, "name": "Project"}, {"id": 1, "name": "Auditor", "hex_code": "#a1B2c3"},
                    {"id": 2, "name": "Gov", "hex_code": "#fff"}],
        "object_types": [
            {"id": 0, "name": "Plot", "description": "a plot",
             "attributes": [{"name": "size", "type": "NUMERIC"},
                            {"name": "tags", "type": "STRING_LIST", "description": "labels"},
                            {"name": "owner", "type": "EDGE", "object_type": "object_type:{Owner}"},
                            {"name": "trees", "type": "EDGE_COLLECTION", "object_type": "object_type:1"}]},
            {"id": 1, "name": "Owner", "attributes": [{"name": "ok", "type": "BOOLEAN"}]},
        ],
        "object_promises": [
            {"id": 0, "name": "plot", "object_type": "object_type:0"},
            {"id": 1, "name": "owner", "description": "who", "object_type": "object_type:{Owner}", "context": "thread_group:0"},
        ],
        "pipelines": [
            {"id": 0, "name": "agg", "object_promise": "object_promise:0", "context": "RUNTIME",
             "variables": [{"name": "$total", "type": "NUMERIC", "initial": 0},
                           {"name": "$names", "type": "STRING_LIST", "initial": []},
                           {"name": "$objs", "type": "OBJECT_LIST", "initial": ["a", "b"]},
                           {"name": "$flag", "type": "BOOLEAN", "initial": None}],
             "traverse": [
                 {"ref": "object_promise:1.trees",
                  "foreach": {"as": "$tree",
                              "variables": [{"name": "$mins", "type": "NUMERIC_LIST", "initial": [1, 2.5]}],
                              "traverse": [{"ref": "$tree.leaves",
                                            "foreach": {"as": "$leaf",
                                                        "apply": [{"from": "$leaf.sizes",
                                                                   "aggregate": {"field": "$_item", "operator": "MIN"},
                                                                   "method": "APPEND", "to": "$mins"}]}}],
                              "apply": [{"from": "$mins", "aggregate": {"field": "$_item", "operator": "AVERAGE"},
                                         "method": "ADD", "to": "$total"},
                                        {"from": "$tree.name", "method": "APPEND", "to": "$names"}]}},
                 {"ref": "$thread_var.items", "foreach": {"as": "$it", "apply": []}},
             ],
             "apply": [
                 {"from": "object_promise:0.trees",
                  "filter": {"where": [{"left": {"ref": "$_item.size"}, "operator": "GREATER_THAN", "right": 3.5},
                                       {"left": "some string", "operator": "CONTAINS", "right": {"ref": "$_item.name"}},
                                       {"where": [{"left": {"ref": "$_item.done"}, "operator": "EQUALS", "right": True},
                                                  {"left": {"ref": "$_item.nums"}, "operator": "DOES_NOT_CONTAIN",
                                                   "right": {"ref": "$_item.n", "context": "RUNTIME"}},
                                                  {"where": [{"left": {"ref": "$_item.a"}, "operator": "ONE_OF", "right": [1, 2]},
                                                             {"left": None, "operator": "EQUALS", "right": {"ref": "$_item"}}],
                                                   "gate_type": "NOR"}],
                                        "gate_type": "OR"}],
                             "gate_type": "AND"},
                  "method": "CONCAT", "to": "$objs"},
                 {"from": "$objs", "filter": {"where": [{"left": {"ref": "$_item.size"}, "operator": "LESS_THAN",
                                                          "right": {"ref": "$_item.edge.size"}}]},
                  "method": "SET", "to": "$objs"},
                 {"from": "$objs", "sort": [{"field": "size", "order": "DESC"}, {"field": "name", "order": "ASC"}],
                  "method": "SET", "to": "$objs"},
                 {"from": "$objs", "select": "name", "method": "CONCAT", "to": "$names"},
             ],
             "output": [{"from": "$total", "to": "size"}, {"from": "$names", "to": "tags"}]},
        ],
        "actions": [
            {"id": 0, "name": "create plot", "description": "d", "party": "party:0", "object_promise": "object_promise:0",
             "operation": {"include": ["size", "tags"], "default_values": {"size": 1, "tags": ["x"], "n": None},
                           "default_edges": {"owner": "object_promise:1"}, "appends_objects_to": "object_promise:0.trees"},
             "steps": [{"title": "one", "description": "first"}, {"title": "two", "description": "second"}],
             "milestones": ["REAL", "PERMANENT"], "supporting_info": ["see annex"]},
            {"id": 1, "name": "edit plot", "description": "d", "party": "party:{Auditor}",
             "object_promise": "object_promise:{plot}", "operation": {"exclude": None},
             "depends_on": "checkpoint:0", "context": "thread_group:{tg}"},
            {"id": 2, "name": "finish", "description": "d", "party": "party:2", "object_promise": "object_promise:1",
             "operation": {"include": None}, "depends_on": "checkpoint:{two deps}"},
        ],
        "thread_groups": [
            {"id": 0, "name": "tg", "description": "threads", "depends_on": "checkpoint:0",
             "spawn": {"foreach": "object_promise:0.trees", "as": "$tree"}},
            {"id": 1, "name": "nested", "description": "inner", "context": "thread_group:0",
             "spawn": {"foreach": "$tree.leaves", "as": "$leaf"}},
        ],
        "checkpoints": [
            {"id": 0, "alias": "cp", "description": "single dependency",
             "dependencies": [dict(cmp_({"ref": "action:0.size"}, "GREATER_THAN", {"value": 2}), description="big enough")]},
            {"id": 1, "alias": "two deps", "description": "gate", "abbreviated_description": "g",
             "supporting_info": ["a", "b"], "gate_type": "AND", "context": "thread_group:0",
             "dependencies": [cmp_({"ref": "action:{create plot}.tags"}, "CONTAINS_ANY_OF", {"value": ["x", "y"]}),
                              cmp_({"value": None}, "DOES_NOT_EQUAL", {"ref": "$tree.owner.ok", "context": "RUNTIME"}),
                              {"checkpoint": "checkpoint:0"}]},
            {"id": 2, "alias": "refs only", "description": "nested", "gate_type": "XOR",
             "dependencies": [{"checkpoint": "checkpoint:{cp}"}, {"checkpoint": "checkpoint:1"}]},
        ],
    }


def is_ascii(doc):
    s = json.dumps(doc, ensure_ascii=False)
    return all(ord(c) < 127 for c in s)


def base_documents(repo_root):
    """[(name, doc)] - the synthetic fixture plus the shipped schemas (ASCII, not huge)."""
    out = [("synthetic", synthetic_doc())]
    files = sorted(glob.glob(os.path.join(repo_root, "schemas", "test", "*.json")) +
                   glob.glob(os.path.join(repo_root, "schemas", "*.json")))
    for f in files:
        try:
            doc = json.load(open(f))
        except Exception:
            continue
        if not is_ascii(doc) or len(json.dumps(doc)) > 12000:
            continue
        out.append((os.path.relpath(f, repo_root), doc))
    return out


# ------------------------------------------------------------------------------------------ damage
REPLACEMENTS = [None, True, 7, 1.5, "zzz", [], ["zzz"], {}, {"zzz": 1}]
RESERVED_SAMPLE = ["root", "_this", "keys", "values", "_parent", "_item", "_corresponding_key", "ERROR"]
MAP_KEYS = ("default_values", "default_edges")


def locations(doc):
    """Every node of the document tree: (path tuple, parent container or None, key/index)."""
    out = []

    def walk(node, path, parent, key):
        out.append((path, parent, key, node))
        if isinstance(node, dict):
            for k in list(node):
                walk(node[k], path + (k,), node, k)
        elif isinstance(node, list):
            for i in range(len(node)):
                walk(node[i], path + (i,), node, i)

    walk(doc, (), None, None)
    return out


def get_at(doc, path):
    for p in path:
        doc = doc[p]
    return doc


def set_at(doc, path, value):
    if not path:
        return value
    get_at(doc, path[:-1])[path[-1]] = value
    return doc


def show(path):
    s = "root"
    for p in path:
        s += "[%d]" % p if isinstance(p, int) else "." + p
    return s


def under_map(path):
    return any(p in MAP_KEYS for p in path[:-1]) or (len(path) >= 1 and path[-1] in MAP_KEYS and False)


def inside_map_object(path):
    """the node at `path` IS a keys/values map object (its keys are data entries, not properties)"""
    return len(path) >= 1 and path[-1] in MAP_KEYS


def descriptive_for(path, node):
    """descriptive optional properties (with a well-formed value) that may be ADDED to the object at path"""
    if not isinstance(node, dict):
        return []
    cands = []
    names = [p for p in path if isinstance(p, str)]
    last = names[-1] if names else ""
    depth_ints = sum(1 for p in path if isinstance(p, int))
    if last == "actions" and depth_ints == 1 and len(path) == 2:
        cands += [("steps", [{"title": "t", "description": "d"}]), ("steps", []), ("supporting_info", ["info", "more"]),
                  ("milestones", [])]
    if last == "checkpoints" and len(path) == 2:
        cands += [("abbreviated_description", "short"), ("supporting_info", ["info"]), ("supporting_info", [])]
    if last == "parties" and len(path) == 2:
        cands += [("hex_code", "#00ff7F"), ("hex_code", "#abc")]
    if last == "object_types" and len(path) == 2:
        cands += [("description", "text")]
    if last == "object_promises" and len(path) == 2:
        cands += [("description", "text")]
    if last == "attributes" and len(path) == 4 and path[0] == "object_types":
        cands += [("description", "text")]
    if last == "dependencies" and len(path) == 4 and "compare" in node:
        cands += [("description", "text")]
    return [(k, v) for (k, v) in cands if k not in node]


def partner_for(path, node):
    """forbidden / mutually exclusive partners for the object at path"""
    if not isinstance(node, dict):
        return []
    out = []
    names = [p for p in path if isinstance(p, str)]
    last = names[-1] if names else ""
    if last == "operation":
        out += [(k, v) for k in ("include", "exclude") for v in (None, ["a"])]
    if last == "apply" and isinstance(path[-1], int):
        out += [("aggregate", {"field": "f", "operator": "SUM"}), ("sort", [{"field": "f", "order": "ASC"}]),
                ("select", "f"), ("filter", {"where": [{"left": {"ref": "$_item"}, "operator": "EQUALS", "right": 1}]})]
    if last == "foreach":
        out += [("output", []), ("output", [{"from": "$a", "to": "b"}])]
    if last in ("checkpoints", "filter") or "where" in node or "dependencies" in node:
        out += [("gate_type", "AND"), ("gate_type", "OR")]
    out += [(k, None) for k in sorted(set(k for k, _ in out))]       # a forbidden / exclusive property given as null
    return [(k, v) for (k, v) in out if k not in node]


def string_breaks(s):
    return [s[:3], s[1:], s[:1], s[-4:], s + s, "_" + s, s + ".x", s + ":x", s + "{x", s + "}", "", s + "\n", "\n" + s, "$_" + s.lstrip("$"), "$." + s.lstrip("$"),
            "$" + s.lstrip("$"), s.lstrip("$"), s.lower(), "ZZZ", "AND", "EQUALS", "RUNTIME", "#12345", "#1234567", "#ggg",
            "#abc\n", "$_item", "$_item.x", "$_itemx", "$_object.x", "$", "$\n", "$a\nb"]


def ref_breaks(s):
    out = ["zzz:1", "action:", "action:{}", "action:{a}", "action:1", "action:1x", "action:{a}\n", "action:1\n", "action:{a\nb}",
           "party:0", "checkpoint:{cp}", "object_promise:0", "object_type:0", "thread_group:0", "schema:{x}", "schema:{x}.action:1",
           "schema:{x}.zzz:1", "schema:{x}.checkpoint:{a}.p", "schema:1.object_promise:2", "action:{a.b}", "action:{a:b}",
           "action:{a}.x.y", ":1", "action", "{action}:1", "Action:1", "action :1", "action:-1", "action:1.5"]
    if ":" in s:
        t, rest = s.split(":", 1)
        out += ["zzz:" + rest, t + rest, t + ":" + rest + ".extra", t.upper() + ":" + rest]
    return out


def damage(rng, doc, kind):
    """Apply one damage of the given kind at a random applicable location; returns (new doc, path string) or None."""
    d = copy.deepcopy(doc)
    locs = locations(d)
    objs = [l for l in locs if isinstance(l[3], dict)]
    arrs = [l for l in locs if isinstance(l[3], list)]
    strs = [l for l in locs if isinstance(l[3], str) and l[1] is not None]
    members = [l for l in locs if isinstance(l[1], dict)]
    anynode = [l for l in locs if l[1] is not None]

    def pick(cands):
        return rng.choice(cands) if cands else None

    if kind == "none":
        return d, "root"
    if kind == "reorder":
        l = pick([o for o in objs if len(o[3]) > 1])
        if not l:
            return None
        items = list(l[3].items())
        rng.shuffle(items)
        new = dict(items)
        return set_at(d, l[0], new), show(l[0])
    if kind == "delete_key":
        l = pick(members)
        if not l:
            return None
        del l[1][l[2]]
        return d, show(l[0])
    if kind.startswith("replace:"):
        v = copy.deepcopy(REPLACEMENTS[int(kind.split(":")[1])])
        l = pick(anynode)
        if not l:
            return None
        l[1][l[2]] = v
        return d, show(l[0])
    if kind == "replace_root":
        return copy.deepcopy(rng.choice(REPLACEMENTS)), "root"
    if kind == "add_reserved":
        l = pick([o for o in objs if not inside_map_object(o[0])])
        k = rng.choice(RESERVED_SAMPLE if rng.random() < 0.5 else ["root", "_this"])
        if not l or k in l[3]:
            return None
        l[3][k] = rng.choice(REPLACEMENTS)
        return d, show(l[0])
    if kind == "add_unknown":
        l = pick([o for o in objs if not inside_map_object(o[0])])
        if not l:
            return None
        k = rng.choice(["zzz_unknown", "zzz_unknown", "Root", "key", "_that", "zzz.dotted", ""])
        if rng.random() < 0.4:
            # names that merely contain a reserved word are not reserved
            w = rng.choice(RESERVED_SAMPLE)
            k = rng.choice([w + "_cause", w + "s", w + "2", "my_" + w, "x" + w, w.capitalize() if w.capitalize() != w else w.lower(), w + " "])
            if k in RESERVED_SAMPLE:
                return None
        if k in l[3]:
            return None
        l[3][k] = copy.deepcopy(rng.choice(REPLACEMENTS))
        return d, show(l[0])
    if kind == "add_map_entry":
        l = pick([o for o in objs if inside_map_object(o[0])])
        if not l:
            return None
        l[3][rng.choice(["zzz_unknown", "root", "a.b"])] = copy.deepcopy(rng.choice(REPLACEMENTS + ["object_promise:0"]))
        return d, show(l[0])
    if kind == "add_descriptive":
        cands = [(o, kv) for o in objs for kv in descriptive_for(o[0], o[3])]
        c = pick(cands)
        if not c:
            return None
        c[0][3][c[1][0]] = copy.deepcopy(c[1][1])
        return d, show(c[0][0]) + "+" + c[1][0]
    if kind == "add_partner":
        cands = [(o, kv) for o in objs for kv in partner_for(o[0], o[3])]
        c = pick(cands)
        if not c:
            return None
        c[0][3][c[1][0]] = copy.deepcopy(c[1][1])
        return d, show(c[0][0]) + "+" + c[1][0]
    if kind == "truncate":
        l = pick([a for a in arrs if a[1] is not None])
        if not l:
            return None
        a = l[3]
        mode = rng.choice(["empty", "one", "two", "drop_last", "dup_last"])
        if mode == "empty":
            new = []
        elif mode == "one":
            new = a[:1]
        elif mode == "two":
            new = a[:2]
        elif mode == "drop_last":
            new = a[:-1]
        else:
            new = a + copy.deepcopy(a[-1:])
        l[1][l[2]] = new
        return d, show(l[0]) + ":" + mode
    if kind == "break_string":
        l = pick(strs)
        if not l:
            return None
        l[1][l[2]] = rng.choice(string_breaks(l[3]))
        return d, show(l[0])
    if kind == "break_ref":
        cands = [s for s in strs if ":" in s[3] or s[3].startswith("$")]
        l = pick(cands or strs)
        if not l:
            return None
        l[1][l[2]] = rng.choice(ref_breaks(l[3]))
        return d, show(l[0])
    if kind == "rename_key":
        l = pick(members)
        if not l:
            return None
        v = l[1].pop(l[2])
        l[1][rng.choice([l[2] + "_", l[2].upper(), "zzz_unknown"])] = v
        return d, show(l[0])
    if kind == "gate":
        cands = [o for o in objs if isinstance(o[3].get("dependencies"), list) or isinstance(o[3].get("where"), list)]
        l = pick(cands)
        if not l:
            return None
        o = l[3]
        arr_key = "dependencies" if "dependencies" in o else "where"
        mode = rng.choice(["one_with_gate", "two_without_gate", "single_checkpoint_ref", "zero", "one_without_gate",
                           "single_ref_with_compare"])
        a = o[arr_key]
        if mode == "one_with_gate":
            o[arr_key] = a[:1]
            o["gate_type"] = "AND"
        elif mode == "two_without_gate":
            o[arr_key] = (a + copy.deepcopy(a) + copy.deepcopy(a))[:2] if a else a
            o.pop("gate_type", None)
        elif mode == "single_checkpoint_ref":
            o[arr_key] = [{"checkpoint": "checkpoint:0"}]
            o.pop("gate_type", None)
        elif mode == "single_ref_with_compare":
            first = copy.deepcopy(a[0]) if a and isinstance(a[0], dict) else {}
            first["checkpoint"] = "checkpoint:0"
            o[arr_key] = [first]
            o.pop("gate_type", None)
        elif mode == "zero":
            o[arr_key] = []
            o.pop("gate_type", None)
        else:
            o[arr_key] = a[:1]
            o.pop("gate_type", None)
        return d, show(l[0]) + ":" + mode
    raise ValueError(kind)


def directed_cases():
    """Hand-picked edge cases on the synthetic fixture: regex corner cases ("$" before a trailing newline, "." not
    matching a newline, prefix-only filter_ref), reference lexing, len() of non-arrays in conditionals, scalars."""
    base = synthetic_doc()
    edits = []
    strings = ["", "\n", "a\n", "\na", "_a", "a_", "a.b", "a:b", "a{b", "a}b", "$", "$\n", "$a", "$a\n", "$a\n\n", "$a\nb",
               "$_", "$_a", "$_a\n", "$.a", "$a.b", "$_item", "$_itemx", "$_item.x", "x$_item", "#abc", "#abc\n", "#abcdef",
               "#abcdef\n", "#abcd", "#ABCDEF", "#abcdeg", "# abc", "action:1", "action:1\n", "action:{a}", "action:{a}\n",
               "action:{a\nb}", "action:{}", "action:{a}}", "action:{{a}", "action:{a.b}", "action:{a}.b.c", "action:01",
               "action:1a", "action:", ":1", "action", "schema:{s}.action:1", "schema:{s}.action:{a}.x", "schema:{s}.zzz:1",
               "schema:{s}", "schema:1.checkpoint:2", "party:{Project}", "checkpoint:{cp}", "object_promise:0.trees",
               "object_type:{Owner}", "thread_group:0", "action:{a:b}", "a:ction:1"]
    string_sites = [("parties", 0, "name"), ("parties", 1, "hex_code"), ("actions", 0, "party"), ("actions", 1, "depends_on"),
                    ("object_types", 0, "attributes", 0, "name"), ("pipelines", 0, "variables", 0, "name"),
                    ("pipelines", 0, "traverse", 0, "ref"), ("pipelines", 0, "apply", 0, "from"),
                    ("pipelines", 0, "apply", 0, "filter", "where", 0, "left", "ref"),
                    ("pipelines", 0, "apply", 0, "filter", "where", 1, "left"),
                    ("pipelines", 0, "apply", 0, "filter", "where", 1, "right", "ref"),
                    ("checkpoints", 0, "dependencies", 0, "compare", "left", "ref"),
                    ("imports", 0, "connections", 0, "to_ref"), ("imports", 0, "file_name"),
                    ("thread_groups", 0, "spawn", "foreach"), ("thread_groups", 0, "spawn", "as"),
                    ("actions", 0, "operation", "default_edges", "owner"), ("pipelines", 0, "output", 0, "from")]
    for site in string_sites:
        for v in strings:
            edits.append((site, v))
    sized = ["", "z", "zz", {}, {"a": 1}, {"a": 1, "b": 2}, [], [1], [1, 2], None, True, 0, 2.5, [{"checkpoint": "checkpoint:0"}],
             [{"checkpoint": "checkpoint:0", "compare": 1}], [[]], ["checkpoint"], [None]]
    for site in [("checkpoints", 0, "dependencies"), ("checkpoints", 1, "dependencies"),
                 ("pipelines", 0, "apply", 0, "filter", "where"), ("pipelines", 0, "apply", 1, "filter", "where")]:
        for v in sized:
            edits.append((site, v))
    scalars = [None, True, 0, -3, 1.5, "s", [], [1, 2.5], ["a", "b"], [True, False], [1, "a"], [None], [[1]], {}, [True, 1]]
    for site in [("actions", 0, "operation", "default_values", "size"), ("pipelines", 0, "variables", 0, "initial"),
                 ("checkpoints", 0, "dependencies", 0, "compare", "right", "value"),
                 ("pipelines", 0, "apply", 0, "filter", "where", 0, "right"), ("actions", 0, "id"), ("actions", 0, "operation", "include")]:
        for v in scalars:
            edits.append((site, v))
    cases = []
    for site, v in edits:
        d = copy.deepcopy(base)
        try:
            set_at(d, site, copy.deepcopy(v))
        except Exception:
            continue
        cases.append({"doc": d, "kind": "directed", "base": "synthetic", "path": show(site) + " := " + json.dumps(v), "inert": False})
    return cases


def importing_doc(file_name):
    """A small valid document that imports one shipped schema."""
    def action(i, **extra):
        a = {"id": i, "name": "native_action_%d" % i, "object_promise": "object_promise:%d" % i, "description": "d",
             "party": "party:{NativeParty}", "operation": {"include": ["name"]}}
        a.update(extra)
        return a
    return {"standard": "alias_collision", "imports": [{"file_name": file_name}], "terms": [],
            "parties": [{"id": 0, "name": "NativeParty"}],
            "object_types": [{"id": 0, "name": "NativeType", "attributes": [{"name": "completed", "type": "BOOLEAN"},
                                                                            {"name": "name", "type": "STRING"}]}],
            "object_promises": [{"id": 0, "name": "np_0", "object_type": "object_type:{NativeType}"},
                                {"id": 1, "name": "np_1", "object_type": "object_type:{NativeType}"}],
            "pipelines": [], "actions": [action(0), action(1, depends_on="checkpoint:{native-cp}")],
            "checkpoints": [{"id": 0, "alias": "native-cp", "description": "d",
                             "dependencies": [{"compare": {"left": {"ref": "action:0.object_promise.completed"},
                                                           "right": {"value": True}, "operator": "EQUALS"}}]}],
            "thread_groups": []}


def alias_collision_cases(repo_root):
    """A hand-written, structurally broken checkpoint that carries the alias of a checkpoint the validator holds
    internally (generated pseudo-checkpoints, stitched checkpoints, checkpoints of imported schemas).  Being known
    under an internal alias must not exempt a document's own checkpoint from structural validation."""
    bases = []
    for name, doc in base_documents(repo_root):
        if isinstance(doc.get("imports"), list) and doc["imports"] or doc.get("thread_groups"):
            bases.append((name, doc))
    files = sorted(glob.glob(os.path.join(repo_root, "schemas", "test", "*.json")))
    for f in files:
        rel = os.path.relpath(f, os.path.join(repo_root, "schemas"))[:-5]
        bases.append(("imports:" + rel, importing_doc(rel)))
    acc = run_verdicts(repo_root, [b[1] for b in bases], mode="--full")
    bases = [b for b, v in zip(bases, acc) if v == "accept"]
    aliases = run_verdicts(repo_root, [b[1] for b in bases], mode="--aliases")
    dep = {"compare": {"left": {"ref": "action:0.object_promise.completed"}, "right": {"value": True}, "operator": "EQUALS"}}
    cases = []
    for (name, doc), al in zip(bases, aliases):
        own = set(c.get("alias") for c in doc.get("checkpoints", []) if isinstance(c, dict))
        for a in al:
            if a in own or not is_ascii(a):
                continue
            broken = [("only_alias", {"alias": a}),
                      ("string_id", {"id": "seven", "alias": a, "description": "d", "dependencies": [dep]}),
                      ("bad_gate", {"id": 77, "alias": a, "description": "d", "gate_type": "ZZZ", "dependencies": [dep, dep]}),
                      ("dependencies_scalar", {"id": 77, "alias": a, "description": "d", "dependencies": 5}),
                      ("missing_description_gate", {"id": 77, "alias": a, "dependencies": [dep, dep]})]
            for what, cp in broken:
                d = copy.deepcopy(doc)
                d.setdefault("checkpoints", []).append(cp)
                cases.append({"doc": d, "kind": "alias_collision:" + what, "base": name,
                              "path": "checkpoints[+] alias=" + a, "inert": False})
    return cases


def root_cases(repo_root):
    """Documents whose root is empty or no object at all, each placed right after a conformant document (the complete
    validator is also asked on an instance that has just validated that one)."""
    bases = base_documents(repo_root)
    acc = run_verdicts(repo_root, [b[1] for b in bases], mode="--full")
    good = [b for b, v in zip(bases, acc) if v == "accept"][:3]
    cases = []
    for name, doc in good:
        for root in ({}, [], 0, False, "", 1.5, "x", [1], [{}], {"standard": "only"}, True):
            cases.append({"doc": copy.deepcopy(doc), "kind": "control", "base": name, "path": "(unchanged)", "inert": True})
            cases.append({"doc": root, "kind": "root", "base": name, "path": "root := " + json.dumps(root), "inert": False})
    return cases


def twin_cases(repo_root):
    """Damage whose detection depends on VALUES, placed after (and before) a conformant sibling with exactly the same
    set of property names: gate_type vs number of dependencies, object_type vs attribute type.  Whatever is remembered
    about the sibling must not decide the damaged one."""
    cases = []
    for name, doc in base_documents(repo_root):
        cps = doc.get("checkpoints")
        if not isinstance(cps, list):
            continue
        c1 = next((c for c in cps if isinstance(c, dict) and isinstance(c.get("dependencies"), list) and len(c["dependencies"]) == 1
                   and "gate_type" not in c and "compare" in c["dependencies"][0]), None)
        c2 = next((c for c in cps if isinstance(c, dict) and isinstance(c.get("dependencies"), list) and len(c["dependencies"]) >= 2
                   and "gate_type" in c), None)
        ids = [c.get("id") for c in cps if isinstance(c, dict) and isinstance(c.get("id"), int)]
        fresh = max(ids + [0]) + 1
        variants = []
        if c1 is not None and c2 is not None:
            bx = dict(c1, id=fresh, alias="twin without gate", dependencies=copy.deepcopy(c2["dependencies"]))
            by = dict(c2, id=fresh, alias="twin with gate", dependencies=copy.deepcopy(c1["dependencies"]))
            variants += [("two dependencies without gate_type, same keys as a conformant single-dependency checkpoint", bx),
                         ("gate_type with one dependency, same keys as a conformant gated checkpoint", by)]
        for what, b in variants:
            for pos in ("after", "before"):
                d = copy.deepcopy(doc)
                # keep the twin referenced (nested under the gated sibling), so that nothing else is wrong with it
                host = next(c for c in d["checkpoints"] if c.get("id") == c2.get("id"))
                host["dependencies"].append({"checkpoint": "checkpoint:%d" % fresh})
                if pos == "after":
                    d["checkpoints"].append(copy.deepcopy(b))
                else:
                    d["checkpoints"].insert(0, copy.deepcopy(b))
                cases.append({"doc": d, "kind": "twin:checkpoint", "base": name, "path": "checkpoints[%s] %s" % (pos, what), "inert": False})
        for ti, t in enumerate(doc.get("object_types") or []):
            attrs = t.get("attributes") if isinstance(t, dict) else None
            if not isinstance(attrs, list):
                continue
            plain = next((a for a in attrs if isinstance(a, dict) and a.get("type") in ("STRING", "NUMERIC", "BOOLEAN") and "object_type" not in a), None)
            if plain is None:
                continue
            for pos in ("after", "before"):
                d = copy.deepcopy(doc)
                b = dict(copy.deepcopy(plain), name="twin edge", type="EDGE")
                lst = d["object_types"][ti]["attributes"]
                lst.append(b) if pos == "after" else lst.insert(0, b)
                cases.append({"doc": d, "kind": "twin:attribute", "base": name,
                              "path": "object_types[%d].attributes[%s] EDGE without object_type, same keys as a conformant plain attribute" % (ti, pos), "inert": False})
            break
    return cases


def short_array_cases(repo_root):
    """Every array position class (path with the indices removed) once over all base documents: the array emptied and
    cut to one element; plus an extra object type that nothing refers to with an empty attribute list (so that a
    missing minimum-length check is the document's only defect)."""
    cases, seen = [], set()
    for name, doc in base_documents(repo_root):
        for (path, parent, key, node) in locations(doc):
            if not isinstance(node, list) or not path:
                continue
            cls = tuple(p for p in path if isinstance(p, str))
            if cls in seen:
                continue
            seen.add(cls)
            for keep in (0, 1):
                if len(node) <= keep:
                    continue
                d = copy.deepcopy(doc)
                set_at(d, path, copy.deepcopy(node[:keep]))
                cases.append({"doc": d, "kind": "short_array:%d" % keep, "base": name, "path": show(path), "inert": False})
        if isinstance(doc.get("object_types"), list):
            ids = [t.get("id") for t in doc["object_types"] if isinstance(t, dict) and isinstance(t.get("id"), int)]
            d = copy.deepcopy(doc)
            d["object_types"].append({"id": max(ids + [0]) + 77, "name": "unused type without attributes", "attributes": []})
            cases.append({"doc": d, "kind": "short_array:unused_type", "base": name, "path": "object_types[+].attributes", "inert": False})
    return cases


def enum_near_cases(repo_root):
    """Every enumeration-looking value (upper-case word) of the base documents, once per (property name, value), replaced
    by proper substrings and near spellings of itself; and the optional `context` property added to a comparison
    operand with such near-members of its one-member enumeration."""
    import re as _re
    cases, seen = [], set()
    for name, doc in base_documents(repo_root):
        for (path, parent, key, node) in locations(doc):
            if isinstance(node, str) and isinstance(key, str) and _re.match(r"^[A-Z][A-Z_]{2,}$", node) and (key, node) not in seen:
                seen.add((key, node))
                for v in (node[:-1], node[1:], node[:3], node + "S", node.lower(), node.capitalize()):
                    if v == node:
                        continue
                    d = copy.deepcopy(doc)
                    set_at(d, path, v)
                    cases.append({"doc": d, "kind": "enum_near", "base": name, "path": show(path) + " := " + json.dumps(v), "inert": False})
            if isinstance(node, dict) and isinstance(node.get("ref"), str) and key in ("left", "right") and "context" not in node \
                    and ("operand_context", name) not in seen and "compare" in [p for p in path if isinstance(p, str)] \
                    and sum(1 for x in seen if x[0] == "operand_context") < 6:
                seen.add(("operand_context", name))
                for v in ("RUN", "TIME", "R", "", "runtime", "RUNTIMES", "TEMPLATE"):
                    d = copy.deepcopy(doc)
                    get_at(d, path)["context"] = v
                    cases.append({"doc": d, "kind": "enum_near:context", "base": name, "path": show(path) + ".context := " + json.dumps(v), "inert": False})
    return cases


def exclusive_pair_cases(repo_root):
    """Every object of every base document that belongs to a mutually exclusive group gets each partner in turn
    (operation include + exclude; an application with two of aggregate / filter / sort / select, the added step
    well formed on its own), and a checkpoint's single comparison dependency becomes a lone checkpoint reference that
    also carries a (malformed) compare."""
    cases = []
    for name, doc in base_documents(repo_root):
        for (path, parent, key, node) in locations(doc):
            if not isinstance(node, dict):
                continue
            for (k, v) in partner_for(path, node):
                if k == "gate_type" or (k == "output" and v is not None):
                    continue
                field = None
                if isinstance(node.get("aggregate"), dict):
                    field = node["aggregate"].get("field")
                elif isinstance(node.get("select"), str):
                    field = node["select"]
                if k in ("select", "sort", "aggregate") and isinstance(field, str):
                    v = {"select": field, "sort": [{"field": field, "order": "ASC"}], "aggregate": {"field": field, "operator": "COUNT"}}[k]
                d = copy.deepcopy(doc)
                get_at(d, path)[k] = copy.deepcopy(v)
                cases.append({"doc": d, "kind": "exclusive_pair:" + k, "base": name, "path": show(path) + "+" + k, "inert": False})
        cps = doc.get("checkpoints") if isinstance(doc.get("checkpoints"), list) else []
        refd = [c for c in cps if isinstance(c, dict) and "id" in c]
        for i, c in enumerate(cps):
            deps = c.get("dependencies") if isinstance(c, dict) else None
            if isinstance(deps, list) and len(deps) == 1 and isinstance(deps[0], dict) and "compare" in deps[0] and "gate_type" not in c:
                other = next((o for o in refd if o is not c), None)
                if other is None:
                    continue
                for stray in ({"left": {}, "right": {}}, {"left": {"value": 1}, "right": {}}, {}):
                    d = copy.deepcopy(doc)
                    d["checkpoints"][i]["dependencies"] = [{"checkpoint": "checkpoint:%s" % other["id"], "compare": stray}]
                    cases.append({"doc": d, "kind": "exclusive_pair:lone_reference_with_compare", "base": name,
                                  "path": "checkpoints[%d].dependencies[0]" % i, "inert": False})
                break
    return cases


DAMAGE_KINDS = (["delete_key"] * 6 + ["replace:%d" % i for i in range(len(REPLACEMENTS))] * 2 + ["replace_root"] +
                ["add_reserved"] * 3 + ["add_partner"] * 4 + ["truncate"] * 4 + ["break_string"] * 6 + ["break_ref"] * 4 +
                ["rename_key"] * 2 + ["gate"] * 4 + ["add_map_entry"])
INERT_KINDS = ["add_unknown"] * 3 + ["add_descriptive"] * 3 + ["reorder"]


def gen_cases(rng, n, repo_root):
    """n cases: 4% undamaged, 16% inert additions, 80% structural damage (of which ~1/8 are double damage)."""
    bases = base_documents(repo_root)
    verdicts = run_verdicts(repo_root, [b[1] for b in bases])
    good = [b for b, v in zip(bases, verdicts) if v == "accept"]
    bad = [b for b, v in zip(bases, verdicts) if v != "accept"]
    if not good:
        raise RuntimeError("no structurally accepted base document")
    synthetic = bases[0]
    cases = []
    guard = 0
    while len(cases) < n and guard < 50 * n:
        guard += 1
        r = rng.random()
        if r < 0.35 and verdicts[0] == "accept":
            name, base = synthetic
        elif r < 0.93 or not bad:
            name, base = rng.choice(good)
        else:
            name, base = rng.choice(bad)
        r = rng.random()
        if r < 0.04:
            kind, inert = "none", True
        elif r < 0.20:
            kind, inert = rng.choice(INERT_KINDS), True
        else:
            kind, inert = rng.choice(DAMAGE_KINDS), False
        res = damage(rng, base, kind)
        if res is None:
            continue
        doc, where = res
        if not inert and rng.random() < 0.125 and isinstance(doc, dict):
            k2 = rng.choice(DAMAGE_KINDS + INERT_KINDS)
            res2 = damage(rng, doc, k2)
            if res2 is not None:
                doc, where2 = res2
                kind, where = kind + "+" + k2, where + " & " + where2
        cases.append({"doc": doc, "kind": kind, "base": name, "path": where, "inert": inert})
    return cases


def inert_violations(cases, results, base_accepts):
    """indices of inert cases (unknown / descriptive additions, reordering, no damage) whose base is accepted but which are rejected"""
    return [i for i, (c, r) in enumerate(zip(cases, results)) if c["inert"] and base_accepts.get(c["base"]) and not r]


# ------------------------------------------------------------------------------------------ Coq output
def coq_string(s):
    if any(ord(c) > 126 for c in s):
        raise ValueError("non-ASCII string in a case: %r" % s)
    return '"' + s.replace('"', '""') + '"'


def coq_json(v):
    if v is None:
        return "JNull"
    if v is True:
        return "(JBool true)"
    if v is False:
        return "(JBool false)"
    if isinstance(v, int):
        return "(JInt %d%%Z)" % v if v >= 0 else "(JInt (%d)%%Z)" % v
    if isinstance(v, float):
        return "(JFloat %s)" % coq_string(repr(v))
    if isinstance(v, str):
        return "(JStr %s)" % coq_string(v)
    if isinstance(v, list):
        return "(JArr [" + "; ".join(coq_json(x) for x in v) + "])"
    if isinstance(v, dict):
        return "(JObj [" + "; ".join("(%s, %s)" % (coq_string(k), coq_json(x)) for k, x in v.items()) + "])"
    raise ValueError("not JSON: %r" % (v,))


def coq_file(cases, results):
    if len(cases) > MAX_CASES_PER_FILE:
        raise ValueError("at most %d documents per file" % MAX_CASES_PER_FILE)
    lines = ["From Coq Require Import List String ZArith Bool.",
             "From OIS Require Import Base.Json Model.Regex Model.Interp Gen.Specs.",
             "Import ListNotations.", "Open Scope string_scope.", ""]
    for i, c in enumerate(cases):
        lines.append("(* %d: %s at %s of %s *)" % (i, c["kind"], c["path"].replace("*)", "* )").replace("\n", " "), c["base"]))
        lines.append("Definition doc_%d : json := %s." % (i, coq_json(c["doc"])))
    lines.append("")
    lines.append("Definition cases : list (json * bool) := [%s]." %
                 "; ".join("(doc_%d, %s)" % (i, "true" if r else "false") for i, r in enumerate(results)))
    lines.append("Definition failing : list nat :=\n"
                 "  (fix go (i : nat) (l : list (json * bool)) : list nat :=\n"
                 "     match l with\n"
                 "     | [] => []\n"
                 "     | (d, b) :: r => if Bool.eqb (interp spec_env default_fuel root_spec d) b then go (S i) r else i :: go (S i) r\n"
                 "     end) 0 cases.")
    lines.append("Eval vm_compute in failing.")
    return "\n".join(lines) + "\n"


def parse_failing(output):
    """the `list nat` printed by the final Eval -> [int]"""
    import re
    m = re.search(r"=\s*\[(.*?)\]\s*:\s*list nat", output, re.S)
    if not m:
        raise ValueError("no `list nat` in coqc output: " + output[-500:])
    body = m.group(1).strip()
    return [int(x) for x in body.replace("\n", " ").split(";") if x.strip()] if body else []


def coqc(path, cwd, timeout=600):
    r = subprocess.run(["timeout", str(timeout), "coqc", "-Q", os.path.join(COQ, "theories"), "OIS",
                        "-w", "-notation-overridden", path], capture_output=True, text=True, cwd=cwd)
    return r.returncode == 0, r.stdout + r.stderr


def compare(cases, results, workdir, tag="cases"):
    """Compile the case files (in parallel); -> sorted indices where model and implementation disagree."""
    from concurrent.futures import ThreadPoolExecutor
    files = []
    for fi, start in enumerate(range(0, len(cases), MAX_CASES_PER_FILE)):
        p = os.path.join(workdir, "%s_%d.v" % (tag, fi))
        open(p, "w").write(coq_file(cases[start:start + MAX_CASES_PER_FILE], results[start:start + MAX_CASES_PER_FILE]))
        files.append((start, p))

    def one(sp):
        ok, out = coqc(sp[1], workdir)
        if not ok:
            raise RuntimeError("coqc failed on %s: %s" % (sp[1], out[-1500:]))
        return [sp[0] + i for i in parse_failing(out)]

    bad = []
    with ThreadPoolExecutor(max_workers=min(16, os.cpu_count() or 4)) as ex:
        for part in ex.map(one, files):
            bad.extend(part)
    return sorted(bad)


# ------------------------------------------------------------------------------------------ self-test
def build_model(repo_root):
    """regenerate Gen/Specs.v from repo_root and compile the model files in dependency order"""
    out = os.path.join(COQ, "theories", "Gen", "Specs.v")
    r = subprocess.run([PY, "-W", "ignore", os.path.join(TOOLS, "gen_specs.py"), repo_root, out], capture_output=True, text=True)
    print((r.stdout + r.stderr).strip())
    if r.returncode != 0:
        raise RuntimeError("gen_specs failed")
    stale = False
    for rel in ("Base/Json.v", "Model/Regex.v", "Model/Interp.v", "Gen/Specs.v"):
        src = os.path.join(COQ, "theories", rel)
        vo = src + "o"
        if not stale and os.path.exists(vo) and os.path.getmtime(vo) >= os.path.getmtime(src):
            continue
        stale = True    # everything downstream of a recompiled file is recompiled too
        ok, log = coqc(src, COQ)
        if not ok:
            raise RuntimeError("coqc %s failed: %s" % (rel, log[-1500:]))


def self_test(repo_root="/repo", n=1200, seed=11):
    from collections import Counter
    t0 = time.time()
    repo_root = os.path.abspath(repo_root)
    build_model(repo_root)
    rng = random.Random(seed)
    cases = directed_cases() + gen_cases(rng, n, repo_root)
    verdicts = run_verdicts(repo_root, [c["doc"] for c in cases])
    results = [v == "accept" for v in verdicts]
    bases = base_documents(repo_root)
    base_ok = {b[0]: v == "accept" for b, v in zip(bases, run_verdicts(repo_root, [b[1] for b in bases]))}
    work = tempfile.mkdtemp(prefix="ois-c11-selftest-", dir="/var/tmp")
    try:
        bad = compare(cases, results, work)
    finally:
        shutil.rmtree(work, ignore_errors=True)
    kinds = Counter(c["kind"].split(":")[0] if "+" not in c["kind"] else "double" for c in cases)
    print("cases: %d  (bases: %d, structurally accepted bases: %d)" % (len(cases), len(bases), sum(base_ok.values())))
    print("implementation verdicts:", dict(Counter(verdicts)))
    print("damage kinds:", dict(sorted(kinds.items())))
    per_kind = Counter()
    for c, v in zip(cases, verdicts):
        per_kind[(c["kind"].split(":")[0] if "+" not in c["kind"] else "double", v)] += 1
    print("kind x verdict:", {"%s/%s" % k: v for k, v in sorted(per_kind.items())})
    iv = inert_violations(cases, results, base_ok)
    print("inert cases: %d, of which rejected although the base is accepted: %d" % (sum(1 for c in cases if c["inert"]), len(iv)))
    for i in iv[:5]:
        print("  INERT VIOLATION", cases[i]["kind"], cases[i]["path"], cases[i]["base"])
    print("model/implementation disagreements: %d of %d" % (len(bad), len(cases)))
    for i in bad[:10]:
        print("  DISAGREE #%d impl=%s kind=%s at %s of %s" % (i, verdicts[i], cases[i]["kind"], cases[i]["path"], cases[i]["base"]))
    # isolation claim: whatever the complete validator accepts, its structural layer accepts
    full = run_verdicts(repo_root, [c["doc"] for c in cases], mode="--full")
    leak = [i for i, (fv, sv) in enumerate(zip(full, verdicts)) if fv == "accept" and sv != "accept"]
    print("complete validator verdicts:", dict(Counter(full)))
    print("accepted by the complete validator but not by its structural layer: %d" % len(leak))
    for i in leak[:5]:
        print("  LEAK #%d kind=%s at %s of %s" % (i, cases[i]["kind"], cases[i]["path"], cases[i]["base"]))
    both = Counter((sv, fv) for sv, fv in zip(verdicts, full))
    print("structural x complete:", {"%s/%s" % k: v for k, v in sorted(both.items())})
    print("wall: %.1fs" % (time.time() - t0))
    return bad + leak, cases, verdicts


if __name__ == "__main__":
    if len(sys.argv) >= 3 and sys.argv[1] == "--full":
        sys.setrecursionlimit(3000)
        f = full_validator(sys.argv[2])
        docs = json.loads(sys.stdin.read())
        sys.stdout.write(json.dumps([f(d) for d in docs]))
        sys.exit(0)
    if len(sys.argv) >= 3 and sys.argv[1] == "--aliases":
        sys.setrecursionlimit(3000)
        f = internal_aliases(sys.argv[2])
        docs = json.loads(sys.stdin.read())
        sys.stdout.write(json.dumps([f(d) for d in docs]))
        sys.exit(0)
    if len(sys.argv) >= 3 and sys.argv[1] == "--worker":
        f = structural_validator(sys.argv[2])
        docs = json.loads(sys.stdin.read())
        sys.stdout.write(json.dumps([f.verdict(d) for d in docs]))
        sys.exit(0)
    repo = sys.argv[1] if len(sys.argv) > 1 else "/repo"
    n = int(sys.argv[2]) if len(sys.argv) > 2 else 1200
    seed = int(sys.argv[3]) if len(sys.argv) > 3 else 11
    bad, cases, verdicts = self_test(repo, n, seed)
    if bad and os.environ.get("C11_DUMP"):
        json.dump([{"i": i, "impl": verdicts[i], **cases[i]} for i in bad], open(os.environ["C11_DUMP"], "w"), indent=1)
    sys.exit(1 if bad else 0)
