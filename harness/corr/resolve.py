"""Correspondence between the Coq model OIS.Model.Resolve and the implementation's string layer of reference handling
(properties C15, C01, C10).

  real functions (one SchemaValidator per environment, `.schema` = the environment's document)       model
    SchemaValidator._resolve_global_ref(ref)    identity of the returned item (schema, kind, position)   resolve
    SchemaValidator._normalize_ref(ref)                                                                 normalize E false
    SchemaValidator._normalize_ref(ref, to_alias=True)                                                  normalize E true
    SchemaValidator._normalize_ref(ref, to_alias=True, alias_attribute_name="alias")                    normalize_attr E true FAlias
    SchemaValidator._ref_has_path(ref)                                                                  ref_has_path
    utils.reduce_ref / is_global_ref / is_import_ref / truncate_schema_id / parse_schema_id /
          parse_ref_type / parse_ref_id                                                                 the same names
    utils.as_ref / utils.prepend_schema_id   (the spellings of existing entities are built with them)  as_ref_id / as_ref_alias / prepend_schema_id

An exception of the implementation is recorded by type: Exception("Invalid ref...") = Raise InvalidRef, TypeError =
Raise NotADict (kind "schema" against a loaded file name that contains "id" / "file_name"); anything else disagrees
with the model by construction.  ASCII only (newline and tab included).
"""
import os, sys, json, random, copy

VERIF = os.path.abspath(os.path.join(os.path.dirname(__file__), "..", ".."))
MAX_PER_FILE = 300

KINDS = ["party", "object_type", "object_promise", "action", "checkpoint", "thread_group"]
COLLECTION = {"party": "parties", "object_type": "object_types", "object_promise": "object_promises", "action": "actions",
              "checkpoint": "checkpoints", "thread_group": "thread_groups"}
ALIAS_FIELD = {k: ("alias" if k == "checkpoint" else "name") for k in KINDS}
REF_TYPES = ["schema", "party", "object_type", "object_promise", "action", "checkpoint", "thread_group"]
PATTERNS = {
    "global_ref_identifier": "^\\d+$",
    "global_ref_alias": "^{.+}$",
    "global_alias_ref": "^((schema:\\d+\\.)?(" + "|".join(REF_TYPES) + "):{.+}).?(.*)$",
}

# ----------------------------------------------------------------------------------------------- generators
_IDS = [0, 1, 10, 11, 2, 12, 100, 101, 20, 21, 3, 110, 7]
_PLAIN = ["alpha", "beta", "Gamma", "delta one", "x", "y", "node", "the thing", "a-b", "pre-fix name", " lead", "trail ", "two  blanks",
          "a,b", "x/y", "q?", "(p)", "#1", "a_b", "A", "it's", "50%", "a+b=c", "semi;colon", "back\\slash", "quo\"te", "tab\there"]
_ILLEGAL = ["a.b", "a}b", "{x}", "a:b", "", "_lead", "a{b", "new\nline", "}", "{", "x}.y{"]
_FILES = ["lib", "test/basic_import", "sub/dir/file", "a b", "other-lib", "lib2", "Lib", "x"]
_ODD_FILES = ["1", "12", "0", "grid", "my_file_name", "a:b", "a.b", "{f}", "lib\n", ""]
_SEGS = ["name", "object_promise", "count", "a b", "x-y", "n", "0", "1", "tags", "(odd)", "action:1", "schema:{lib}"]
_ODD_SEGS = ["", "x}", "{y}", "a\nb", "\n", " ", "{", "}"]


def _entity(rng, kind, ident, name, odd):
    e = {}
    if ident is not None:
        e["id"] = ident
    af = ALIAS_FIELD[kind]
    if name is not None:
        e[af] = name
    if odd and rng.random() < 0.15:
        # the other name-like field: a checkpoint with a "name", another entity with an "alias"
        e["name" if af == "alias" else "alias"] = rng.choice(_PLAIN + [str(rng.choice(_IDS))])
    return e


def _collection(rng, kind, odd):
    n = rng.randrange(1, 7)
    ids = rng.sample(_IDS, n)
    if rng.random() < 0.5:
        ids = sorted(ids, reverse=rng.random() < 0.5)
    names = []
    for i in range(n):
        r = rng.random()
        if r < 0.35:
            cand = str(rng.choice(ids))                      # the decimal spelling of an id of this collection
            if cand == str(ids[i]) and rng.random() < 0.7:
                cand = str(ids[(i + 1) % n])                 # ... preferably of ANOTHER entity
        elif r < 0.45:
            cand = str(rng.choice(_IDS))
        elif r < 0.93 or not odd:
            cand = rng.choice(_PLAIN)
        else:
            cand = rng.choice(_ILLEGAL)
        names.append(cand)
    # pairwise distinct unless the environment is an odd one
    seen = set()
    for i in range(n):
        while names[i] in seen and not (odd and rng.random() < 0.3):
            names[i] = names[i] + rng.choice(["'", " 2", "x", "0"])
        seen.add(names[i])
    out = []
    for i in range(n):
        ident, name = ids[i], names[i]
        if odd:
            r = rng.random()
            if r < 0.08:
                ident = None
            elif r < 0.16:
                ident = -rng.choice([1, 2, 10])
            elif r < 0.22:
                ident = rng.choice(ids)                      # a repeated id
            if rng.random() < 0.06:
                name = None
        out.append(_entity(rng, kind, ident, name, odd))
    return out


def _schema(rng, odd):
    doc = {}
    for k in KINDS:
        if odd and rng.random() < 0.07:
            continue                                         # the document has no such array
        if odd and rng.random() < 0.05:
            doc[COLLECTION[k]] = []
            continue
        doc[COLLECTION[k]] = _collection(rng, k, odd)
    return doc


def gen_env(rng, odd=None):
    """{"native": {collection: [items]}, "imported": {file name: {collection: [items]}}, "odd": bool}
    odd = False: ids and names pairwise distinct per collection, non-negative ids, names without dot / brace / colon /
    newline, file names that are not numbers (the hypotheses of the theorems); odd = True: anything."""
    if odd is None:
        odd = rng.random() < 0.35
    env = {"native": _schema(rng, odd), "imported": {}, "odd": odd}
    for _ in range(rng.choice([0, 1, 1, 2, 2])):
        f = rng.choice(_ODD_FILES) if (odd and rng.random() < 0.4) else rng.choice(_FILES)
        imp = _schema(rng, odd)
        if rng.random() < 0.6:
            # overlap with the native schema: same ids, same names, other positions
            for k in rng.sample(KINDS, 3):
                c = COLLECTION[k]
                if env["native"].get(c) and c in imp:
                    imp[c] = copy.deepcopy(env["native"][c])
                    rng.shuffle(imp[c])
                    if len(imp[c]) > 1 and rng.random() < 0.5:
                        imp[c].pop()
        env["imported"][f] = imp
    return env


def _path(rng, odd):
    n = rng.choice([1, 1, 2, 3])
    return ".".join(rng.choice(_ODD_SEGS) if (odd and rng.random() < 0.25) else rng.choice(_SEGS) for _ in range(n))


def _mutate_text(rng, s):
    alphabet = ":.{}\n 01a_-"
    if not s:
        return rng.choice(alphabet)
    i = rng.randrange(len(s) + 1)
    r = rng.random()
    if r < 0.4:
        return s[:i] + rng.choice(alphabet) + s[i:]
    if r < 0.75 and i < len(s):
        return s[:i] + s[i + 1:]
    if i < len(s):
        return s[:i] + rng.choice(alphabet) + s[i + 1:]
    return s + rng.choice(alphabet)


_BROKEN = ["", ".", ":", "action", "action:", "action1", ":1", "action::1", "action:{}", "action:{", "action:}", "action:{a", "action:a}",
           "action:{{a}}", "action:{a}}", "action:{{a}", "action:1.", "action:1..", "action:1..name", "action:{a}.", ".action:1", " action:1",
           "action:1 ", "action :1", "action: 1", "action:1\n", "action:{a}\n", "\naction:1", "action:\n1", "Action:1", "ACTION:1", "actions:1",
           "action:01", "action:1a", "action:-1", "action:+1", "action:1.0", "action:1e3", "pipeline:0", "term:{x}", "object:1",
           "schema:{lib}", "schema:0", "schema:{lib}.", "schema:{lib}..action:1", "schema:{lib}.schema:{lib}.action:1", "schema:{lib}.schema:5.action:{a}",
           "schema:5.action:{a.b}", "schema:{lib}action:1", "schema:lib.action:1", "schema:{lib}.action", "schema:{lib}.action:", "schema:{lib}.action:{a",
           "schema:{lib}\n.action:1", "schema:{a:b}.action:1", "schema:{}:}.action:1", "schema:{:}.action:1", "schema:{lib}.schema:0", "schema:{lib}.schema:{x}",
           "action:{1}.a\nb", "action:{12}.x\ny", "object_promise:{1}.\n", "object_type:1", "object_typo:1", "object_promise:{a}.x{y}", "thread_group:{a}.b}.c"]


def gen_refs(rng, env, n):
    """-> list of {"ref": text, "cat": category, "built": None | [spelling, kind, value, file | None, path | None]}"""
    odd = env["odd"]
    out = []
    ents = []                                                # (file | None, kind, item)
    for f, doc in [(None, env["native"])] + list(env["imported"].items()):
        for k in KINDS:
            for it in doc.get(COLLECTION[k], []):
                ents.append((f, k, it))
    files = list(env["imported"])

    def spell(f, k, it, by_alias, path=None, qualifier=None):
        """every spelling is built by the REAL utils.as_ref / prepend_schema_id later (see run_impl); here the recipe"""
        if by_alias:
            v = it.get(ALIAS_FIELD[k])
            if v is None:
                return None
            built = ["alias", k, v, f, path]
        else:
            if "id" not in it:
                return None
            built = ["id", k, it["id"], f, path]
        return built

    def add(ref, cat, built=None):
        out.append({"ref": ref, "cat": cat, "built": built})

    def text_of(built):
        sp, k, v, f, path = built
        r = "%s:%s" % (k, v) if sp == "id" else "%s:{%s}" % (k, v)
        if f is not None:
            r = "schema:{%s}.%s" % (f, r)
        if path is not None:
            r = r + "." + path
        return r

    # directed: the NAME of one entity is the decimal spelling of the ID of another one of the same collection; both
    # spellings next to each other, in either order, on the same validator instance (a lookup that remembers what a
    # text resolved to, or that falls back from one field to the other, shows here)
    pairs = []
    for f, doc in [(None, env["native"])] + list(env["imported"].items()):
        for k in KINDS:
            c = doc.get(COLLECTION[k], [])
            for a in c:
                for b in c:
                    if a is not b and "id" in b and a.get(ALIAS_FIELD[k]) == str(b["id"]):
                        pairs.append((f, k, a, b))
    rng.shuffle(pairs)
    for f, k, a, b in pairs[:max(2, n // 10)]:
        two = [spell(f, k, b, False, _path(rng, False) if rng.random() < 0.3 else None),
               spell(f, k, a, True, _path(rng, False) if rng.random() < 0.3 else None)]
        if rng.random() < 0.5:
            two.reverse()
        for bb in two:
            add(text_of(bb), "confusable" + ("+schema" if f is not None else ""), bb)
    tries = 0
    while len(out) < n and tries < 20 * n:
        tries += 1
        r = rng.random()
        if r < 0.42 and ents:
            f, k, it = rng.choice(ents)
            b = spell(f, k, it, rng.random() < 0.5, _path(rng, odd) if rng.random() < 0.45 else None)
            if b is not None:
                add(text_of(b), "entity" + ("+path" if b[4] is not None else "") + ("+schema" if f is not None else ""), b)
        elif r < 0.52 and ents:
            # the same local part under another / unloaded / number-spelled qualifier, or without one
            f, k, it = rng.choice(ents)
            b = spell(f, k, it, rng.random() < 0.5, _path(rng, odd) if rng.random() < 0.3 else None)
            if b is None:
                continue
            local = text_of(b[:3] + [None, b[4]])
            q = rng.choice(["schema:{not_loaded}.", "schema:{%s}." % rng.choice(_FILES), "schema:7.", "schema:1.", "schema:{1}.", "schema:{%s}." % (files[0] if files else "lib"), ""])
            add(q + local, "requalified")
        elif r < 0.62:
            k = rng.choice(KINDS)
            d = rng.choice(["9", "99", "13", "007", "00", "1000000", "{nobody}", "{no such name}", "{99}", "{ }", "{9 }", "{ 9}"])
            q = "schema:{%s}." % rng.choice(files) if files and rng.random() < 0.3 else ""
            add(q + "%s:%s" % (k, d) + ("." + _path(rng, odd) if rng.random() < 0.3 else ""), "dangling")
        elif r < 0.72 and ents:
            f, k, it = rng.choice(ents)
            k2 = rng.choice([x for x in REF_TYPES + ["pipeline", "term"] if x != k])
            b = spell(f, k, it, rng.random() < 0.5, _path(rng, odd) if rng.random() < 0.3 else None)
            if b is not None:
                add(text_of([b[0], k2] + b[2:]), "wrong-kind")
        elif r < 0.84:
            s = rng.choice(_BROKEN)
            if files and rng.random() < 0.4:
                s = s.replace("{lib}", "{%s}" % rng.choice(files))
            add(s, "broken")
        elif ents:
            f, k, it = rng.choice(ents)
            b = spell(f, k, it, rng.random() < 0.5, _path(rng, True) if rng.random() < 0.4 else None)
            if b is None:
                continue
            s = text_of(b)
            for _ in range(rng.choice([1, 1, 2])):
                s = _mutate_text(rng, s)
            add(s, "mutated")
    return out


def gen_cases(rng, n, refs_per_env=30):
    """-> list of cases {"env_id", "env", "ref", "cat", "built"}; an environment is shared by refs_per_env consecutive cases"""
    cases, eid = [], 0
    while len(cases) < n:
        env = gen_env(rng)
        for r in gen_refs(rng, env, min(refs_per_env, n - len(cases))):
            cases.append(dict(r, env_id=eid, env=env))
        eid += 1
    return cases


# ----------------------------------------------------------------------------------------------- implementation
def _import_repo(repo_root):
    repo_root = os.path.abspath(repo_root)
    if repo_root not in sys.path:
        sys.path.insert(0, repo_root)
    os.environ.setdefault("NATUREBLOCKS_OPEN_IMPACT_STANDARDS_VERIF", "1")
    import warnings
    warnings.simplefilter("ignore")


def check_consts(repo_root):
    """The data copied into Model/Resolve.v must be the repository's: ref_types, the three expressions, the collection
    and alias field of every kind.  -> list of mismatches (fail closed)"""
    _import_repo(repo_root)
    cwd = os.getcwd()
    os.chdir(repo_root)
    try:
        import enums
        from validation import patterns, obj_specs
        bad = []
        if list(enums.ref_types) != REF_TYPES:
            bad.append("enums.ref_types = %r" % (enums.ref_types,))
        for name, src in PATTERNS.items():
            if getattr(patterns, name, None) != src:
                bad.append("patterns.%s = %r" % (name, getattr(patterns, name, None)))
        for k in KINDS:
            rc = getattr(obj_specs, k, {}).get("ref_config")
            if rc != {"collection": "root." + COLLECTION[k], "alias_field": ALIAS_FIELD[k]}:
                bad.append("obj_specs.%s.ref_config = %r" % (k, rc))
        rc = getattr(obj_specs, "schema_import", {}).get("ref_config")
        if rc != {"collection": "root.imported_schemas", "alias_field": "file_name"}:
            bad.append("obj_specs.schema_import.ref_config = %r" % (rc,))
        return bad
    finally:
        os.chdir(cwd)


def document_of(env):
    doc = copy.deepcopy(env["native"])
    doc["imported_schemas"] = copy.deepcopy(env["imported"])
    return doc


def _identity(doc, obj):
    for f, d in [(None, doc)] + list(doc["imported_schemas"].items()):
        for k in KINDS:
            for i, it in enumerate(d.get(COLLECTION[k], [])):
                if it is obj:
                    return [f, k, i]
    return ["?", repr(obj)[:80]]


def _call(fn):
    try:
        return ["val", fn()]
    except BaseException as e:  # noqa
        if type(e) is Exception and str(e).startswith("Invalid ref"):
            return ["raise", "InvalidRef"]
        if type(e) is TypeError:
            return ["raise", "NotADict"]
        return ["raise", type(e).__name__ + ": " + str(e)[:120]]


def run_impl(repo_root, cases):
    """-> per case a dict of outcomes (["val", x] | ["raise", kind])"""
    _import_repo(repo_root)
    cwd = os.getcwd()
    os.chdir(repo_root)
    try:
        from validation.schema_validator import SchemaValidator
        from validation import utils
        validators = {}
        out = []
        for c in cases:
            if c["env_id"] not in validators:
                v = SchemaValidator()
                v.schema = document_of(c["env"])
                validators[c["env_id"]] = v
            v = validators[c["env_id"]]
            ref = c["ref"]
            res = {}
            r = _call(lambda: v._resolve_global_ref(ref))
            if r[0] == "val" and r[1] is not None:
                r = ["val", _identity(v.schema, r[1])]
            res["resolve"] = r
            res["norm_id"] = _call(lambda: v._normalize_ref(ref))
            res["norm_alias"] = _call(lambda: v._normalize_ref(ref, to_alias=True))
            res["norm_alias_attr"] = _call(lambda: v._normalize_ref(ref, to_alias=True, alias_attribute_name="alias"))
            res["has_path"] = _call(lambda: bool(v._ref_has_path(ref)))
            res["reduce"] = _call(lambda: utils.reduce_ref(ref))
            res["is_global"] = _call(lambda: bool(utils.is_global_ref(ref)))
            res["is_import"] = _call(lambda: bool(utils.is_import_ref(ref)))
            res["truncate"] = _call(lambda: utils.truncate_schema_id(ref))
            res["schema_id"] = _call(lambda: utils.parse_schema_id(ref))
            res["kind"] = _call(lambda: utils.parse_ref_type(ref))
            res["ref_id"] = _call(lambda: utils.parse_ref_id(ref))
            if c.get("built"):
                sp, k, val, f, path = c["built"]

                def build():
                    s = utils.as_ref(val, k, value_is_id=(sp == "id"))
                    if f is not None:
                        s = utils.prepend_schema_id(f, s)
                    return s if path is None else s + "." + path
                res["built"] = _call(build)
            out.append(res)
        return out
    finally:
        os.chdir(cwd)


def outcome_class(res):
    """coarse label of one result, for the evidence"""
    r = res["resolve"]
    if r[0] == "raise":
        return "raise:" + r[1].split(":")[0]
    if r[1] is None:
        return "unresolved"
    return "resolved" + ("-imported" if r[1][0] is not None else "-native")


# ----------------------------------------------------------------------------------------------- Coq side
def coq_string(s):
    assert all(ord(ch) < 128 for ch in s), "ASCII only: %r" % s
    if all(32 <= ord(ch) < 127 for ch in s):
        return '"' + s.replace('"', '""') + '"'
    return "(codes [%s])" % "; ".join(str(ord(ch)) for ch in s)


def _opt(x, f):
    return "None" if x is None else "(Some %s)" % f(x)


def coq_ent(it):
    return "(mkEnt %s %s %s)" % (_opt(it.get("id"), lambda z: "(%d)%%Z" % z), _opt(it.get("name"), coq_string), _opt(it.get("alias"), coq_string))


def coq_colls(doc):
    return "[%s]" % "; ".join("(%s, [%s])" % (coq_string(k), "; ".join(coq_ent(it) for it in doc[COLLECTION[k]]))
                               for k in KINDS if COLLECTION[k] in doc)


def coq_env(env):
    return "(mkEnv %s [%s])" % (coq_colls(env["native"]),
                                "; ".join("(%s, %s)" % (coq_string(f), coq_colls(d)) for f, d in env["imported"].items()))


def _res(r, f):
    if r[0] == "val":
        return "(Some (Val %s))" % f(r[1])
    if r[1] in ("InvalidRef", "NotADict"):
        return "(Some (Raise %s))" % r[1]
    return "None"                                            # an exception the model does not have: always a disagreement


def _bool(b):
    return "true" if b else "false"


def _eref(x):
    if x is None:
        return "None"
    if x[0] == "?":
        return "(Some (Some \"?\", \"?\", 0))"
    return "(Some (%s, %s, %d))" % (_opt(x[0], coq_string), coq_string(x[1]), x[2])


_HEADER = """From Coq Require Import List String Ascii ZArith Bool.
From OIS Require Import Model.Resolve.
Import ListNotations.
Open Scope string_scope.
Definition codes (l : list nat) : string := string_of_list_ascii (map ascii_of_nat l).
Definition sres := option (res string).
Definition chk {A} (eqb : A -> A -> bool) (expected : option (res A)) (model : res A) : bool :=
  match expected with Some e => res_eqb eqb e model | None => false end.
Definition beqb := Bool.eqb.
Record row := mkRow {
  r_idx : nat; r_env : nat; r_ref : string;
  r_resolve : option (res (option eref)); r_nid : sres; r_nal : sres; r_nal2 : sres;
  r_has_path : option (res bool); r_reduce : sres; r_global : option (res bool); r_import : option (res bool);
  r_trunc : sres; r_sid : option (res (option string)); r_kind : sres; r_rid : sres;
  r_built : option (string * sres) }.
Definition dummy_env : env := mkEnv [] [].
Definition row_ok (envs : list env) (r : row) : bool :=
  let E := nth (r_env r) envs dummy_env in
  let s := r_ref r in
  chk (opt_eqb eref_eqb) (r_resolve r) (resolve E s)
  && chk String.eqb (r_nid r) (normalize E false s)
  && chk String.eqb (r_nal r) (normalize E true s)
  && chk String.eqb (r_nal2 r) (normalize_attr E true FAlias s)
  && chk beqb (r_has_path r) (Val (ref_has_path s))
  && chk String.eqb (r_reduce r) (Val (reduce_ref s))
  && chk beqb (r_global r) (Val (is_global_ref s))
  && chk beqb (r_import r) (Val (is_import_ref s))
  && chk String.eqb (r_trunc r) (Val (truncate_schema_id s))
  && chk (opt_eqb String.eqb) (r_sid r) (Val (parse_schema_id s))
  && chk String.eqb (r_kind r) (parse_ref_type s)
  && chk String.eqb (r_rid r) (parse_ref_id s)
  && match r_built r with
     | None => true
     | Some (m, impl) => chk String.eqb impl (Val m) && String.eqb m s
     end.
"""


def _built_model(b):
    sp, k, v, f, path = b
    t = "(as_ref_id %s (%d)%%Z)" % (coq_string(k), v) if sp == "id" else "(as_ref_alias %s %s)" % (coq_string(k), coq_string(v))
    if f is not None:
        t = "(prepend_schema_id %s %s)" % (coq_string(f), t)
    if path is not None:
        t = "(with_path %s %s)" % (t, coq_string(path))
    return t


def coq_file(cases, results):
    assert len(cases) == len(results) <= MAX_PER_FILE
    env_ids, envs = {}, []
    for c in cases:
        if c["env_id"] not in env_ids:
            env_ids[c["env_id"]] = len(envs)
            envs.append(coq_env(c["env"]))
    rows = []
    for i, (c, r) in enumerate(zip(cases, results)):
        built = "None"
        if c.get("built"):
            built = "(Some (%s, %s))" % (_built_model(c["built"]), _res(r["built"], coq_string))
        rows.append("  (mkRow %d %d %s\n     %s %s %s %s\n     %s %s %s %s\n     %s %s %s %s\n     %s)" % (
            i, env_ids[c["env_id"]], coq_string(c["ref"]),
            _res(r["resolve"], _eref), _res(r["norm_id"], coq_string), _res(r["norm_alias"], coq_string), _res(r["norm_alias_attr"], coq_string),
            _res(r["has_path"], _bool), _res(r["reduce"], coq_string), _res(r["is_global"], _bool), _res(r["is_import"], _bool),
            _res(r["truncate"], coq_string), _res(r["schema_id"], lambda x: _opt(x, coq_string)), _res(r["kind"], coq_string), _res(r["ref_id"], coq_string),
            built))
    return _HEADER + """
Definition envs : list env := [
  %s
].
Definition rows : list row := [
%s
].
Definition failing : list nat := flat_map (fun r => if row_ok envs r then [] else [r_idx r]) rows.
Eval vm_compute in failing.
""" % (";\n  ".join(envs), ";\n".join(rows))


# ----------------------------------------------------------------------------------------------- the properties on the implementation
def spec_check(case, res):
    """What C15 / C01 / C10 say about this layer, checked on the implementation's own outputs, independently of the
    model (used to classify a disagreement).  -> list of complaints"""
    bad = []
    env, ref = case["env"], case["ref"]
    if case.get("built") and not env["odd"] and "\n" not in ref:
        sp, k, v, f, path = case["built"]
        doc = env["native"] if f is None else env["imported"][f]
        pos = [i for i, it in enumerate(doc[COLLECTION[k]]) if (it.get("id") == v if sp == "id" else it.get(ALIAS_FIELD[k]) == v)]
        if res["resolve"] != ["val", [f, k, pos[0]]]:
            bad.append("a spelling of a declared entity does not resolve to it: %r" % (res["resolve"],))
    if res["is_global"] == ["val", True] and res["resolve"][0] == "raise" and res["kind"] != ["val", "schema"]:
        bad.append("a lexically well-formed reference makes _resolve_global_ref raise: %r" % (res["resolve"],))
    return bad
