"""Correspondence between the Coq model OIS.Model.Canon and the implementation's uniqueness machinery (property C10).

  hash part    utils.hash_sorted_object(x) == utils.hash_sorted_object(y)      vs  impl_eqb (text model, every case)
                                                                               and canon_eqb (typed model)
  unique part  len(SchemaValidator()._validate_unique(path, items, obj_spec))  vs  unique_errors / unique_errors_text

Case kinds of the hash part (y derived from x):
  shuffle    every array and every key order shuffled             -> must be equal
  type       exactly one scalar changes its JSON type only        -> must differ   (1<->"1", null<->"None"/"null",
                                                                                    true<->"True"/"true", true<->1, false<->0)
  dropdup    one array element / one key dropped or duplicated    -> must differ
  unrelated  independent values                                   -> whatever
  confuse    one container changes its KIND only ({} <-> [], {"1": 2} <-> [[1, 2]]): the implementation prints the
             (key, value) tuples of a dict like lists and does NOT tell these apart; the text model predicts that,
             the typed model says "different" (expected typed verdict is False).  KNOWN DEVIATION, not reachable from
             values that passed obj_spec validation (positions have a fixed container kind there).
Only ints (no floats) and printable ASCII strings without quote/backslash are generated, so quoting is trivial.
Lists mix scalars and containers (the implementation used to raise TypeError there; a raise is a disagreement).
"""
import os, sys, json, copy, random, subprocess, tempfile, shutil, re

VERIF = os.path.abspath(os.path.join(os.path.dirname(__file__), "..", ".."))
COQ_THEORIES = os.path.join(VERIF, "coq", "theories")
MAX_PER_FILE = 300

# ----------------------------------------------------------------------------------------------- generators
_WORDS = ["a", "b", "ab", "name", "x y", "None", "null", "True", "true", "false", "1", "0", "-1", "12", "",
          "AND", "OR", "action:0", "[]", "{}", "[1, 2]", "z_9", "Q", "a,b", " 1"]
_KEYS = ["a", "b", "c", "id", "name", "ref", "value", "k1", "Z", "left", "right", "1", "null", "x_y"]
_OPERATORS = ["EQUALS", "DOES_NOT_EQUAL", "GREATER_THAN", "LESS_THAN", "CONTAINS", "ONE_OF"]


def _scalar(rng):
    c = rng.randrange(10)
    if c < 3:
        return rng.choice([0, 1, 2, -1, 7, 10, 12, 100, -35, rng.randrange(-1000, 1000)])
    if c < 7:
        return rng.choice(_WORDS)
    if c < 8:
        return None
    return rng.choice([True, False])


def _generic(rng, depth):
    """Generic nested value; containers mix scalars and containers."""
    if depth <= 0 or rng.random() < 0.35:
        return _scalar(rng)
    if rng.random() < 0.5:
        return [_generic(rng, depth - 1) for _ in range(rng.randrange(0, 5))]
    ks = rng.sample(_KEYS, rng.randrange(0, 5))
    return {k: _generic(rng, depth - 1) for k in ks}


def _operand(rng):
    if rng.random() < 0.5:
        o = {"ref": "action:%d.object_promise.%s" % (rng.randrange(3), rng.choice(["name", "count", "tags"]))}
        if rng.random() < 0.2:
            o["context"] = "RUNTIME"
        return o
    c = rng.randrange(4)
    if c < 2:
        return {"value": _scalar(rng)}
    if c == 2:
        return {"value": [_scalar(rng) for _ in range(rng.randrange(0, 4))]}   # string_list / numeric_list operands
    return {"value": rng.choice([1, "1", None, "None", True, "True", 0, False])}


def _dependency(rng):
    if rng.random() < 0.3:
        return {"checkpoint": "checkpoint:%s" % rng.choice(["0", "1", "2", "{cp-a}", "{cp-b}"])}
    d = {"compare": {"left": _operand(rng), "right": _operand(rng), "operator": rng.choice(_OPERATORS)}}
    if rng.random() < 0.2:
        d["description"] = rng.choice(_WORDS)
    return d


def gen_composite(rng):
    """Shaped like the unique_obj of the checkpoint composite key ["gate_type", "dependencies"]."""
    n = rng.randrange(1, 5)
    deps = [_dependency(rng) for _ in range(n)]
    if rng.random() < 0.3 and deps:
        deps.append(copy.deepcopy(rng.choice(deps)))            # a repeated dependency: multiset, not set
    o = {}
    if n >= 2 or rng.random() < 0.2:
        o["gate_type"] = rng.choice(["AND", "OR"])
    o["dependencies"] = deps
    if rng.random() < 0.1:
        del o["dependencies"]
    return o


def _shuffle(rng, v):
    if isinstance(v, list):
        l = [_shuffle(rng, x) for x in v]
        rng.shuffle(l)
        return l
    if isinstance(v, dict):
        ks = list(v.keys())
        rng.shuffle(ks)
        return {k: _shuffle(rng, v[k]) for k in ks}
    return v


def _paths(v, pred, path=(), top=True):
    """Paths of the sub-values satisfying pred."""
    out = []
    if pred(v, top):
        out.append(path)
    if isinstance(v, list):
        for i, x in enumerate(v):
            out += _paths(x, pred, path + (i,), False)
    elif isinstance(v, dict):
        for k, x in v.items():
            out += _paths(x, pred, path + (k,), False)
    return out


def _get(v, path):
    for p in path:
        v = v[p]
    return v


def _set(v, path, new):
    if not path:
        return new
    v = copy.deepcopy(v)
    cur = v
    for p in path[:-1]:
        cur = cur[p]
    cur[path[-1]] = new
    return v


def _retype(rng, s):
    """Same text, other JSON type."""
    if s is None:
        return rng.choice(["None", "null"])
    if s is True:
        return rng.choice(["True", "true", 1])
    if s is False:
        return rng.choice(["False", "false", 0])
    if isinstance(s, int):
        opts = [str(s)]
        if s in (0, 1):
            opts.append(bool(s))
        return rng.choice(opts)
    if isinstance(s, str):
        if s in ("None", "null"):
            return None
        if s in ("True", "true"):
            return True
        if s in ("False", "false"):
            return False
        if re.fullmatch(r"-?(0|[1-9][0-9]*)", s) and s != "-0":
            return int(s)
    return None if s is not None else "None"     # a string that is not the text of another scalar: str -> null


def _has_same_text_twin(s):
    return not isinstance(s, str) or s in ("None", "null", "True", "true", "False", "false") or \
        (re.fullmatch(r"-?(0|[1-9][0-9]*)", s) is not None and s != "-0")


def _is_scalar(v, top):
    return not isinstance(v, (list, dict))


def mutate_type(rng, x):
    ps = _paths(x, _is_scalar)
    if not ps:
        return None
    same_text = [p for p in ps if _has_same_text_twin(_get(x, p))]      # 1 <-> "1", null <-> "None", true <-> "True"
    p = rng.choice(same_text if same_text and rng.random() < 0.85 else ps)
    old = _get(x, p)
    new = _retype(rng, old)
    if type(new) == type(old) and new == old:
        return None
    return _set(x, p, new)


def mutate_dropdup(rng, x):
    ps = _paths(x, lambda v, top: isinstance(v, (list, dict)) and len(v) > 0)
    if not ps:
        return None
    p = rng.choice(ps)
    c = copy.deepcopy(_get(x, p))
    if isinstance(c, list):
        i = rng.randrange(len(c))
        if rng.random() < 0.5:
            del c[i]
        else:
            c.insert(rng.randrange(len(c) + 1), copy.deepcopy(c[i]))
    else:
        del c[rng.choice(list(c.keys()))]
    return _set(x, p, c)


def mutate_confuse(rng, x):
    """Change the kind of one container in a way the implementation cannot see."""
    def confusable(v, top):
        if v == {} or v == []:
            return True
        # {"<int text>": v, ...} with keys that are texts of ints and sort before the value texts
        return False
    ps = _paths(x, confusable)
    if ps and rng.random() < 0.8:
        p = rng.choice(ps)
        return _set(x, p, [] if _get(x, p) == {} else {})
    # plant a {"1": 2} / [[1, 2]] pair somewhere
    a, b = rng.choice([(1, 2), (3, 40), (0, 5)])
    d, l = {str(a): b}, [[a, b]]
    ps = _paths(x, lambda v, top: isinstance(v, (list, dict)))
    p = rng.choice(ps)
    c = copy.deepcopy(_get(x, p))
    if isinstance(c, list):
        cx, cy = c + [d], c + [l]
    else:
        cx, cy = dict(c, planted=d), dict(c, planted=l)
    return _set(x, p, cx), _set(x, p, cy)


def typed_canon(v):
    """Independent reference for the typed model: equality modulo array order and key order, JSON types kept apart,
    container kinds kept apart."""
    if v is None:
        return ("null",)
    if isinstance(v, bool):
        return ("bool", v)
    if isinstance(v, int):
        return ("int", v)
    if isinstance(v, str):
        return ("str", v)
    if isinstance(v, list):
        return ("arr", sorted((typed_canon(x) for x in v), key=repr))
    if isinstance(v, dict):
        return ("obj", sorted(((k, typed_canon(x)) for k, x in v.items()), key=lambda kv: kv[0]))
    raise TypeError(v)


def typed_equal(x, y):
    return repr(typed_canon(x)) == repr(typed_canon(y))


def gen_cases(rng, n):
    cases = []
    while len(cases) < n:
        x = gen_composite(rng) if rng.random() < 0.55 else _generic(rng, 4)
        if not isinstance(x, (dict, list)):
            x = {"value": x}
        r = rng.random()
        if r < 0.30:
            kind, y, expect = "shuffle", _shuffle(rng, x), True
        elif r < 0.55:
            kind, y, expect = "type", mutate_type(rng, x), False
        elif r < 0.75:
            kind, y, expect = "dropdup", mutate_dropdup(rng, x), False
        elif r < 0.90:
            kind, expect = "unrelated", None
            y = gen_composite(rng) if rng.random() < 0.5 else _generic(rng, 3)
            if rng.random() < 0.3:          # unrelated but equal up to order after all
                y = _shuffle(rng, x)
        else:
            kind, expect = "confuse", True
            y = mutate_confuse(rng, x)
            if isinstance(y, tuple):
                x, y = y
        if y is None:
            continue
        if kind != "shuffle" and rng.random() < 0.5:
            y = _shuffle(rng, y)
        cases.append({"x": x, "y": y, "kind": kind, "expect": expect, "typed": typed_equal(x, y)})
    return cases


# ----------------------------------------------------------------------------------------------- implementation
def _import_repo(repo_root):
    repo_root = os.path.abspath(repo_root)
    if repo_root not in sys.path:
        sys.path.insert(0, repo_root)
    os.environ.setdefault("NATUREBLOCKS_OPEN_IMPACT_STANDARDS_VERIF", "1")
    import warnings
    warnings.simplefilter("ignore")


def run_impl(repo_root, cases):
    """-> list of True / False / "raise" """
    _import_repo(repo_root)
    cwd = os.getcwd()
    os.chdir(repo_root)
    try:
        import utils
        out = []
        for c in cases:
            try:
                out.append(bool(utils.hash_sorted_object(copy.deepcopy(c["x"])) ==
                                utils.hash_sorted_object(copy.deepcopy(c["y"]))))
            except BaseException:  # noqa
                out.append("raise")
        return out
    finally:
        os.chdir(cwd)


# the uniqueness domains of C10: name -> (obj_spec_name of the items, unique, unique_composites)
DOMAINS = {
    "parties": ("party", ["id", "name"], []),
    "object_types": ("object_type", ["id", "name"], []),
    "object_promises": ("object_promise", ["id", "name"], []),
    "thread_groups": ("thread_group", ["id", "name"], []),
    "actions": ("action", ["id", "name", "milestones"], []),
    "checkpoints": ("checkpoint", ["id", "alias"], [["gate_type", "dependencies"]]),
    "pipelines": ("pipeline", ["id", "name", "object_promise"], []),
    "imports": ("schema_import", ["file_name"], []),
    "connections": (None, ["to_ref"], []),
    "attributes": ("attribute", ["name"], []),
    "traverse": ("traverse", ["ref"], []),
}
_MILESTONES = ["REAL", "CLEAR_OWNERSHIP", "PERMANENT", "ADDITIONAL", "VERIFIABLE"]


def check_domains(repo_root):
    """The constraint data copied into DOMAINS / Canon.v must be the repository's. -> list of mismatches"""
    _import_repo(repo_root)
    from validation import obj_specs, pipeline_obj_specs
    bad = []
    root = obj_specs.root_object["properties"]
    for name, (osn, uq, uc) in DOMAINS.items():
        if name in root:
            spec = root[name]
        elif name == "connections":
            spec = obj_specs.schema_import["properties"]["connections"]
        elif name == "attributes":
            spec = obj_specs.object_type["properties"]["attributes"]
        elif name == "traverse":
            spec = pipeline_obj_specs.pipeline["properties"]["traverse"]
        else:
            bad.append(name + ": not found")
            continue
        c = spec.get("constraints", {})
        if c.get("unique", []) != uq or c.get("unique_composites", []) != uc or "unique_if_not_null" in c:
            bad.append("%s: constraints are %r" % (name, c))
        if osn is not None and name in root and spec["values"].get("obj_spec_name") != osn:
            bad.append("%s: obj_spec_name is %r" % (name, spec["values"].get("obj_spec_name")))
    return bad


def _small_id(rng):
    return rng.choice([0, 1, 2, 3, 1, 2, 10, -1])


def gen_unique_cases(rng, n):
    """Small arrays of items with ids / names / milestones / composite keys; duplicates at random positions."""
    cases = []
    names = ["a", "b", "c", "1", "2", "name", "A", "a b", "None", "0"]
    while len(cases) < n:
        dom = rng.choice(list(DOMAINS))
        osn, uq, uc = DOMAINS[dom]
        k = rng.randrange(0, 6)
        items, generated = [], []
        dep_pool = [_dependency(rng) for _ in range(3)]
        for i in range(k):
            it = {}
            for f in uq:
                if rng.random() < 0.12:
                    continue                                   # field absent: skipped by the implementation
                if f == "id":
                    it[f] = _small_id(rng) if rng.random() < 0.7 else i
                    if rng.random() < 0.06:
                        it[f] = rng.choice([True, False, None])   # not reachable through validate(); Python key semantics
                elif f == "milestones":
                    it[f] = rng.sample(_MILESTONES, rng.randrange(0, 3))
                    if rng.random() < 0.15 and it[f]:
                        it[f].append(it[f][0])                 # repeated within one array
                elif f in ("to_ref", "object_promise", "ref"):
                    it[f] = "%s:%s" % (rng.choice(["action", "checkpoint", "object_promise"]), rng.choice(["0", "1", "{a}", "{b}"]))
                else:
                    it[f] = rng.choice(names) if rng.random() < 0.7 else "n%d" % i
            if uc:
                m = rng.randrange(1, 4)
                deps = [copy.deepcopy(rng.choice(dep_pool)) for _ in range(m)]
                if rng.random() < 0.3:
                    deps = [_dependency(rng) for _ in range(m)]
                if rng.random() < 0.9:
                    it["dependencies"] = deps
                if len(deps) >= 2 or rng.random() < 0.1:
                    it["gate_type"] = rng.choice(["AND", "OR"])
                if items and rng.random() < 0.35:              # same composite as an earlier item, reordered / retyped
                    src = rng.choice(items)
                    for p in ("gate_type", "dependencies"):
                        it.pop(p, None)
                        if p in src:
                            it[p] = copy.deepcopy(src[p])
                    r = rng.random()
                    if r < 0.5:
                        sh = _shuffle(rng, {p: it[p] for p in ("gate_type", "dependencies") if p in it})
                        it.update(sh)
                    elif r < 0.8:
                        sub = {p: it[p] for p in ("gate_type", "dependencies") if p in it}
                        mut = mutate_type(rng, sub)
                        if mut is not None:
                            it.update(mut)
                if rng.random() < 0.15:
                    generated.append(i)                        # a checkpoint the validator generated itself: bypassed
                if "alias" in it and rng.random() < 0.1:
                    it["alias"] = "_stitch_%d" % rng.randrange(2)    # the alias alone does not bypass anything
                it["description"] = "d%d" % i
            if rng.random() < 0.5:
                it = _shuffle(rng, it) if not uc else {kk: it[kk] for kk in rng.sample(list(it), len(it))}
            items.append(it)
        cases.append({"domain": dom, "obj_spec_name": osn, "unique": uq, "unique_composites": uc,
                      "items": items, "generated": generated})
    return cases


def run_impl_unique(repo_root, cases):
    """-> list of number of error messages of _validate_unique (0 = accepted as unique) or "raise" """
    _import_repo(repo_root)
    cwd = os.getcwd()
    os.chdir(repo_root)
    try:
        from validation.schema_validator import SchemaValidator
        from validation import obj_specs, pipeline_obj_specs
        root = obj_specs.root_object["properties"]
        out = []
        for c in cases:
            # the repository's own spec of the domain (the implementation consults the item spec to find out which
            # unique fields are references); the constraint data is checked against DOMAINS by check_domains
            name = c["domain"]
            if name in root:
                real = root[name]
            elif name == "connections":
                real = obj_specs.schema_import["properties"]["connections"]
            elif name == "attributes":
                real = obj_specs.object_type["properties"]["attributes"]
            else:
                real = pipeline_obj_specs.pipeline["properties"]["traverse"]
            cons = {"unique": list(c["unique"])}
            if c["unique_composites"]:
                cons["unique_composites"] = [list(p) for p in c["unique_composites"]]
            obj_spec = {"type": "array", "values": real["values"], "constraints": cons}
            try:
                v = SchemaValidator()
                # a schema without entities: no reference resolves, so reference-typed unique fields are compared as
                # written.  (Normalisation of reference spelling belongs to the reference layer, which the scenario
                # model represents by abstract (kind, id) references and the whole-validator runs exercise.)
                v.schema = {"parties": [], "object_types": [], "object_promises": [], "actions": [], "checkpoints": [],
                            "thread_groups": [], "pipelines": [], "imports": [], "imported_schemas": {}}
                items = copy.deepcopy(c["items"])
                # _bypass_validation_of_object: identity with a checkpoint the validator generated itself
                v._generated_checkpoints = [items[i] for i in c["generated"]]
                errs = v._validate_unique("root." + c["domain"], items, obj_spec)
                out.append(len(errs))
            except BaseException:  # noqa
                out.append("raise")
        return out
    finally:
        os.chdir(cwd)


# ----------------------------------------------------------------------------------------------- Coq side
def coq_string(s):
    assert all(32 <= ord(ch) < 127 for ch in s), "printable ASCII only: %r" % s
    return '"' + s.replace('"', '""') + '"'


def coq_json(v):
    if v is None:
        return "JNull"
    if v is True:
        return "(JBool true)"
    if v is False:
        return "(JBool false)"
    if isinstance(v, int):
        return "(JInt (%d)%%Z)" % v
    if isinstance(v, str):
        return "(JStr %s)" % coq_string(v)
    if isinstance(v, list):
        return "(JArr [%s])" % "; ".join(coq_json(x) for x in v)
    if isinstance(v, dict):
        return "(JObj [%s])" % "; ".join("(%s, %s)" % (coq_string(k), coq_json(x)) for k, x in v.items())
    raise TypeError("not modelled: %r" % (v,))


_HEADER = """From Coq Require Import List String ZArith Bool.
From OIS Require Import Base.Json Model.Canon.
Import ListNotations.
Open Scope string_scope.
"""


def _coq_bool(b):
    return "true" if b else "false"


def coq_file(cases, results):
    """hash part: one entry (index, x, y, raised, implementation verdict, expected typed verdict)."""
    assert len(cases) == len(results) <= MAX_PER_FILE
    rows = []
    for i, (c, r) in enumerate(zip(cases, results)):
        raised = r == "raise"
        impl = bool(r) and not raised
        typed = c["typed"] if "typed" in c else typed_equal(c["x"], c["y"])
        rows.append("  (%d%%nat, %s,\n      %s, %s, %s, %s)" % (i, coq_json(c["x"]), coq_json(c["y"]),
                                                               _coq_bool(raised), _coq_bool(impl), _coq_bool(typed)))
    return _HEADER + """
Definition cases : list (nat * json * json * bool * bool * bool) := [
%s
].
(* a case fails when the implementation raised, when the text model differs from the implementation, or when the
   typed model differs from the reference verdict computed by typed_equal in canon.py (equality modulo array order
   and key order; = the implementation's verdict except where a container changes its kind) *)
Definition failing : list nat :=
  flat_map (fun c => match c with
                     | (i, x, y, raised, impl, typed) =>
                         if negb raised && Bool.eqb (impl_eqb x y) impl && Bool.eqb (canon_eqb x y) typed
                         then [] else [i]
                     end) cases.
Eval vm_compute in failing.
""" % ";\n".join(rows)


def coq_file_unique(cases, results):
    assert len(cases) == len(results) <= MAX_PER_FILE
    rows = []
    for i, (c, r) in enumerate(zip(cases, results)):
        raised = r == "raise"
        n = 0 if raised else int(r)
        bypass = ("(bypass_positions [%s])" % "; ".join("%d%%nat" % g for g in c["generated"])
                  if c["obj_spec_name"] == "checkpoint" else "no_bypass")
        rows.append("  (%d%%nat, [%s], [%s], %s,\n      [%s], %s, %d%%nat)" % (
            i, "; ".join(coq_string(f) for f in c["unique"]),
            "; ".join("[%s]" % "; ".join(coq_string(p) for p in ps) for ps in c["unique_composites"]),
            bypass, ";\n       ".join(coq_json(it) for it in c["items"]), _coq_bool(raised), n))
    return _HEADER + """
Definition cases : list (nat * list string * list (list string) * (nat -> bool) * list json * bool * nat) := [
%s
].
Definition failing : list nat :=
  flat_map (fun c => match c with
                     | (i, fields, composites, bypass, items, raised, n) =>
                         if negb raised && Nat.eqb (unique_errors fields composites bypass items) n
                            && Nat.eqb (unique_errors_text fields composites bypass items) n
                         then [] else [i]
                     end) cases.
Eval vm_compute in failing.
""" % ";\n".join(rows)


def parse_failing(out):
    m = re.search(r"=\s*(\[.*?\])\s*:\s*list nat", out, re.S)
    if not m:
        return None
    body = m.group(1).strip()[1:-1].strip()
    return [] if not body else [int(x.replace("%nat", "").strip()) for x in body.split(";")]


def coq_run(text, workdir, name, timeout=300):
    path = os.path.join(workdir, name + ".v")
    with open(path, "w") as f:
        f.write(text)
    r = subprocess.run(["timeout", str(timeout), "coqc", "-Q", COQ_THEORIES, "OIS", "-w", "-notation-overridden", path],
                       capture_output=True, text=True, cwd=workdir)
    if r.returncode != 0:
        return None, r.stdout + r.stderr
    return parse_failing(r.stdout), r.stdout + r.stderr


def check_expectations(cases, results):
    """The 'must be equal' / 'must differ' part: indices where the implementation itself violates C10's quantifier.
    The implementation may only deviate from the typed reference by identifying containers of different kinds
    (verdict True where the reference says False) and only in kinds "confuse" / "unrelated"."""
    bad = []
    for i, (c, r) in enumerate(zip(cases, results)):
        if r == "raise":
            bad.append(i)
        elif c["kind"] in ("shuffle", "type", "dropdup") and (bool(r) != c["expect"] or c["typed"] != c["expect"]):
            bad.append(i)
        elif c["kind"] == "confuse" and not (r is True and c["typed"] is False):
            bad.append(i)
        elif c["typed"] and not r:
            bad.append(i)                      # a duplicate of the typed reference missed by the implementation
    return bad


def kind_confusions(cases, results):
    return [i for i, (c, r) in enumerate(zip(cases, results)) if r is True and not c["typed"]]


# ----------------------------------------------------------------------------------------------- self-test
def main(argv):
    repo = argv[1] if len(argv) > 1 else os.environ.get("VERIF_REPO", "/repo")
    seed = int(argv[2]) if len(argv) > 2 else 20260930
    n_hash, n_unique = 600, 300
    rng = random.Random(seed)
    bad_domains = check_domains(repo)
    cases = gen_cases(rng, n_hash)
    results = run_impl(repo, cases)
    ucases = gen_unique_cases(rng, n_unique)
    uresults = run_impl_unique(repo, ucases)
    work = tempfile.mkdtemp(prefix="ois-canon-corr-", dir=os.environ.get("VERIF_TMP", "/var/tmp"))
    ok = not bad_domains
    try:
        disagree, errors = [], []
        for off in range(0, len(cases), MAX_PER_FILE):
            chunk, res = cases[off:off + MAX_PER_FILE], results[off:off + MAX_PER_FILE]
            failing, out = coq_run(coq_file(chunk, res), work, "CanonCases%d" % (off // MAX_PER_FILE))
            if failing is None:
                errors.append(out[-2000:])
            else:
                disagree += [off + i for i in failing]
        udisagree = []
        for off in range(0, len(ucases), MAX_PER_FILE):
            chunk, res = ucases[off:off + MAX_PER_FILE], uresults[off:off + MAX_PER_FILE]
            failing, out = coq_run(coq_file_unique(chunk, res), work, "UniqueCases%d" % (off // MAX_PER_FILE))
            if failing is None:
                errors.append(out[-2000:])
            else:
                udisagree += [off + i for i in failing]
    finally:
        shutil.rmtree(work, ignore_errors=True)
    kinds = {}
    for c, r in zip(cases, results):
        k = kinds.setdefault(c["kind"], {"n": 0, "equal": 0, "raise": 0})
        k["n"] += 1
        k["equal"] += r is True
        k["raise"] += r == "raise"
    violated = check_expectations(cases, results)
    confused = kind_confusions(cases, results)
    print("constraint data vs repository: %s" % ("ok" if not bad_domains else bad_domains))
    print("hash part: %d cases %s" % (len(cases), json.dumps(kinds, sort_keys=True)))
    print("  model/implementation disagreements: %d %s" % (len(disagree), disagree[:10]))
    print("  implementation against must-be-equal / must-differ expectations: %d violations %s" % (len(violated), violated[:10]))
    print("  container kinds identified by the implementation (known deviation, predicted by the text model): %d, of kind %s" % (
        len(confused), sorted(set(cases[i]["kind"] for i in confused))))
    print("unique part: %d cases, %d with duplicates reported, %d raised" % (
        len(ucases), sum(1 for r in uresults if r != "raise" and r > 0), sum(1 for r in uresults if r == "raise")))
    print("  model/implementation disagreements: %d %s" % (len(udisagree), udisagree[:10]))
    for d in disagree[:3]:
        print("  e.g. hash case %d: %s -> impl %r" % (d, json.dumps(cases[d]), results[d]))
    for d in udisagree[:3]:
        print("  e.g. unique case %d: %s -> impl %r" % (d, json.dumps(ucases[d]), uresults[d]))
    for e in errors:
        print("COQ ERROR:\n" + e)
    ok = ok and not disagree and not udisagree and not errors and not violated
    print("AGREE" if ok else "DISAGREE")
    return 0 if ok else 1


if __name__ == "__main__":
    sys.exit(main(sys.argv))
