"""Correspondence generator for the chart layout (properties C17, C18).

Compares the Gallina model OIS.Model.Layout.layout with the implementation
visualization/dependency_chart_layout.py (DependencyChartLayout.from_graph_data) on the same graphs:
the coordinates of every node, including the y offsets and the insertion order of node_coordinates, must
be identical.

  gen_cases(rng, n, exhaustive_upto=0) -> [{"nodes": [...], "edges": [[a, b], ...]}, ...]
  run_impl(repo_root, cases)           -> [[[node, x, 2*y], ...] | {"raise": "..."}, ...]
  coq_file(cases, results)             -> text of a Coq file ending in `Eval vm_compute in (failing_indices).`
  spec_check(case, result)             -> None | str   (C17/C18 checked directly on the implementation's output)

Edge [a, b] means "a depends on b" (edge_tuples entry (a, b); edge_dict[a] contains b).
"""
import sys, os, json, random, itertools, subprocess

MAX_CASES_PER_FILE = 300
PY = "/venv/bin/python"

# ----------------------------------------------------------------------------------------------- generation


def _relabel(rng, n_nodes, edges, shuffle=True):
    """Random relabelling onto 0..n-1 and random listing orders of nodes and edges."""
    ids = list(range(n_nodes))
    perm = ids[:]
    if shuffle:
        rng.shuffle(perm)
    nodes = [perm[i] for i in ids]
    es = [[perm[a], perm[b]] for (a, b) in edges]
    if shuffle:
        rng.shuffle(nodes)
        rng.shuffle(es)
    return {"nodes": nodes, "edges": es}


def _all_dags(k):
    """Every DAG on k nodes up to relabelling (at least once): subsets of {(i, j) | i < j}."""
    pairs = [(i, j) for i in range(k) for j in range(i + 1, k)]
    for mask in range(1 << len(pairs)):
        yield [pairs[t] for t in range(len(pairs)) if mask >> t & 1]


def _random_dag(rng):
    """Unstructured random DAG: random topological order, random density, parallel edges."""
    n = rng.randint(3, 40)
    p = rng.choice([0.03, 0.06, 0.1, 0.2, 0.4])
    edges = []
    for i in range(n):
        for j in range(i + 1, n):
            if rng.random() < p:
                edges.append((i, j))
                while rng.random() < 0.15:  # parallel edges
                    edges.append((i, j))
    return n, edges


def _layered_dag(rng, same_parity):
    """DAG with prescribed columns: layer 0 = exit nodes; a node of layer L has an edge from a node of
    layer L-1 (so its depth is exactly L); extra edges, many of them spanning several columns.
    With same_parity the sizes of adjacent columns have equal parity and are > 1 (triggers column_offset)."""
    n_layers = rng.randint(3, 7)
    budget = rng.randint(max(3, n_layers), 40)
    sizes = []
    par = rng.randint(0, 1)
    for _ in range(n_layers):
        if same_parity and rng.random() < 0.8:
            s = rng.choice([2, 4, 6]) if par == 0 else rng.choice([3, 3, 5, 7])
        else:
            s = rng.randint(1, 6)
        sizes.append(s)
    while sum(sizes) > max(budget, n_layers):
        i = rng.randrange(n_layers)
        if sizes[i] > (2 if same_parity else 1):
            sizes[i] -= 2 if same_parity else 1
        elif all(s <= (2 if same_parity else 1) for s in sizes):
            break
    while sum(sizes) > 40:
        sizes.pop()
    layers, nxt = [], 0
    for s in sizes:
        layers.append(list(range(nxt, nxt + s)))
        nxt += s
    edges = []
    for L in range(1, len(layers)):
        for b in layers[L]:
            edges.append((rng.choice(layers[L - 1]), b))
            if rng.random() < 0.3:
                edges.append((rng.choice(layers[L - 1]), b))
    # spanning edges (a in layer i, b in layer j >= i + 2) and a few more adjacent ones
    n_span = rng.randint(1, 3 * len(layers))
    for _ in range(n_span):
        i = rng.randrange(0, len(layers) - 1)
        j = rng.randrange(i + 1, len(layers))
        if rng.random() < 0.75 and i + 2 < len(layers):
            j = rng.randrange(i + 2, len(layers))
        edges.append((rng.choice(layers[i]), rng.choice(layers[j])))
        if rng.random() < 0.1:
            edges.append(edges[-1])
    return nxt, edges


def _comb_dag(rng):
    """A long chain plus isolated nodes and short side chains: many entry and exit nodes, one-node columns
    next to wide ones, spanning edges at height collisions."""
    length = rng.randint(3, 10)
    edges = [(i, i + 1) for i in range(length - 1)]
    n = length
    for _ in range(rng.randint(0, 12)):
        if n >= 40:
            break
        kind = rng.random()
        if kind < 0.25:
            n += 1  # isolated node: both entry and exit
        elif kind < 0.6:
            a = rng.randrange(0, length)
            edges.append((n, a)) if rng.random() < 0.5 else edges.append((a, n))
            n += 1
        else:
            a = rng.randrange(0, length - 2)
            b = rng.randrange(a + 2, length)
            edges.append((a, b))
    return n, edges


def gen_cases(rng, n, exhaustive_upto=0):
    cases = []
    if exhaustive_upto > 0:
        for k in range(0, exhaustive_upto + 1):
            for edges in _all_dags(k):
                cases.append(_relabel(rng, k, edges, shuffle=False))
                if k >= 2:
                    cases.append(_relabel(rng, k, edges, shuffle=True))
                    if edges and rng.random() < 0.3:  # a parallel edge
                        cases.append(_relabel(rng, k, edges + [rng.choice(edges)], shuffle=True))
    for t in range(n):
        r = rng.random()
        if r < 0.35:
            k, edges = _layered_dag(rng, same_parity=True)
        elif r < 0.6:
            k, edges = _layered_dag(rng, same_parity=False)
        elif r < 0.8:
            k, edges = _random_dag(rng)
        else:
            k, edges = _comb_dag(rng)
        cases.append(_relabel(rng, k, edges, shuffle=True))
    return cases


# ----------------------------------------------------------------------------------------------- implementation

_WORKER = r"""
import sys, json, signal
repo_root = sys.argv[1]
sys.path.insert(0, repo_root)
sys.setrecursionlimit(5000)
from visualization.dependency_chart_layout import DependencyChartLayout

class _Timeout(Exception):
    pass

def _alarm(signum, frame):
    raise _Timeout()

signal.signal(signal.SIGALRM, _alarm)
cases = json.load(sys.stdin)
out = []
n_timeouts = 0
for case in cases:
    if n_timeouts >= 3:
        # an implementation that stopped terminating: three witnesses are enough, the run must end
        out.append({"raise": "Timeout (not run: three earlier cases did not terminate within 10 s)"})
        continue
    node_ids = [str(v) for v in case["nodes"]]
    edge_dict, edge_tuples = {}, []
    for a, b in case["edges"]:           # exactly DependencyGraph._add_edge
        a, b = str(a), str(b)
        if a not in edge_dict:
            edge_dict[a] = []
        edge_dict[a].append(b)
        edge_tuples.append((a, b))
    try:
        signal.setitimer(signal.ITIMER_REAL, 10.0)
        coords = DependencyChartLayout().from_graph_data(node_ids, edge_dict, edge_tuples)
        signal.setitimer(signal.ITIMER_REAL, 0)
        res = []
        for node, (x, y) in coords.items():
            y2 = y * 2
            if int(x) != x or int(y2) != y2:
                raise ValueError("non half-integral coordinate %r" % ((node, x, y),))
            res.append([int(node), int(x), int(y2)])
        out.append(res)
    except _Timeout:
        n_timeouts += 1
        out.append({"raise": "Timeout (no result within 10 s)"})
    except BaseException as e:
        signal.setitimer(signal.ITIMER_REAL, 0)
        out.append({"raise": "%s: %s" % (type(e).__name__, str(e)[:200])})
json.dump(out, sys.stdout)
"""


def run_impl(repo_root, cases):
    """Runs the implementation found under repo_root (in a fresh interpreter, so that no previously imported
    copy of the module is used) on every case."""
    env = dict(os.environ)
    env["PYTHONDONTWRITEBYTECODE"] = "1"
    env["PYTHONWARNINGS"] = "ignore"
    py = PY if os.path.exists(PY) else sys.executable
    r = subprocess.run([py, "-W", "ignore", "-c", _WORKER, repo_root], input=json.dumps(cases),
                       capture_output=True, text=True, env=env, cwd=repo_root,
                       timeout=60 + 11 * len(cases))
    if r.returncode != 0:
        raise RuntimeError("implementation runner failed: " + r.stderr[-2000:])
    return json.loads(r.stdout)


# ----------------------------------------------------------------------------------------------- Coq file

def _z(i):
    return "(%d)%%Z" % i


def _coq_case(case, result):
    nodes = "[" + "; ".join(str(v) for v in case["nodes"]) + "]"
    edges = "[" + "; ".join("(%d, %d)" % (a, b) for a, b in case["edges"]) + "]"
    if isinstance(result, dict):
        exp = "None"
    else:
        exp = "Some [" + "; ".join("(%d, (%s, %s))" % (v, _z(x), _z(y)) for v, x, y in result) + "]"
    return "(%s, %s, %s)" % (nodes, edges, exp)


def coq_file(cases, results):
    assert len(cases) == len(results) and len(cases) <= MAX_CASES_PER_FILE
    lines = [
        "(* generated by harness/corr/layout.py -- do not edit *)",
        "From Coq Require Import List Arith ZArith Bool.",
        "From OIS Require Import Model.Layout.",
        "Import ListNotations.",
        "Definition coord_eqb (a b : nat * (Z * Z)) : bool :=",
        "  Nat.eqb (fst a) (fst b) && Z.eqb (fst (snd a)) (fst (snd b)) && Z.eqb (snd (snd a)) (snd (snd b)).",
        "Fixpoint coords_eqb (a b : list (nat * (Z * Z))) : bool :=",
        "  match a, b with",
        "  | [], [] => true",
        "  | x :: a', y :: b' => coord_eqb x y && coords_eqb a' b'",
        "  | _, _ => false",
        "  end.",
        "Definition agree (r e : option (list (nat * (Z * Z)))) : bool :=",
        "  match r, e with Some a, Some b => coords_eqb a b | None, None => true | _, _ => false end.",
        "Definition cases : list (list nat * list (nat * nat) * option (list (nat * (Z * Z)))) := [",
    ]
    lines.append(";\n".join("  " + _coq_case(c, r) for c, r in zip(cases, results)))
    lines += [
        "].",
        "Definition failing_indices : list nat :=",
        "  map fst (filter (fun ic => negb (agree (layout (fst (fst (snd ic))) (snd (fst (snd ic)))) (snd (snd ic))))",
        "                  (combine (seq 0 (length cases)) cases)).",
        "Eval vm_compute in (failing_indices).",
        "",
    ]
    return "\n".join(lines)


def parse_failing(out):
    """Parses the `= [..] : list nat` printed by the generated file; None if absent."""
    import re
    m = re.search(r"=\s*(\[.*?\])\s*:\s*list nat", out, re.S)
    if not m:
        return None
    body = m.group(1).strip()[1:-1].strip()
    return [int(x.replace("%nat", "").strip()) for x in body.split(";")] if body else []


def compare(cases, results, workdir, name="layout_cases", theories="/verif/coq/theories", timeout=900):
    """Writes and compiles the Coq file for <= 300 cases; returns (list of failing indices | None, coqc output)."""
    path = os.path.join(workdir, name + ".v")
    with open(path, "w") as f:
        f.write(coq_file(cases, results))
    r = subprocess.run(["timeout", str(timeout), "coqc", "-Q", theories, "OIS", "-w", "-notation-overridden", path],
                       capture_output=True, text=True, cwd=workdir)
    out = r.stdout + r.stderr
    if r.returncode != 0:
        return None, out
    return parse_failing(out), out


# ----------------------------------------------------------------------------------------------- spec oracle

def spec_check(case, result):
    """C17 and C18 checked directly on the implementation's own output (acyclic input assumed)."""
    nodes, edges = case["nodes"], [tuple(e) for e in case["edges"]]
    if isinstance(result, dict):
        return "C17 terminates: implementation raised %s" % result.get("raise")
    # C17: exactly one coordinate per node
    seen = [v for v, _, _ in result]
    if sorted(seen) != sorted(nodes) or len(set(seen)) != len(seen):
        return "C17 total: nodes with a coordinate %r differ from node_ids %r" % (sorted(seen), sorted(nodes))
    xy = {v: (x, y) for v, x, y in result}
    # C17: coordinates pairwise distinct
    inv = {}
    for v, c in xy.items():
        if c in inv:
            return "C17 injective: nodes %r and %r share coordinate %r" % (inv[c], v, c)
        inv[c] = v
    # C17: x = - longest chain from an exit node (a node that is no edge's second component)
    preds = {v: [] for v in nodes}
    for a, b in edges:
        preds[b].append(a)
    memo = {}

    def longest(v, stack=()):
        if v in memo:
            return memo[v]
        if v in stack:
            raise ValueError("cyclic input")
        r = 0
        for a in preds[v]:
            r = max(r, 1 + longest(a, stack + (v,)))
        memo[v] = r
        return r

    old = sys.getrecursionlimit()
    sys.setrecursionlimit(max(old, 10000))
    try:
        for v in nodes:
            if xy[v][0] != -longest(v):
                return "C17 depth: node %r has x=%r but longest chain from an exit node is %r" % (v, xy[v][0], longest(v))
    finally:
        sys.setrecursionlimit(old)
    # C17: dependency strictly left of dependent
    for a, b in edges:
        if not xy[b][0] < xy[a][0]:
            return "C17 edge-left: edge (%r,%r) has x(b)=%r, x(a)=%r" % (a, b, xy[b][0], xy[a][0])
    # C18
    for a, b in edges:
        (xa, ya), (xb, yb) = xy[a], xy[b]
        if ya == yb and abs(xa - xb) > 1:
            lo, hi = min(xa, xb), max(xa, xb)
            for v, (x, y) in xy.items():
                if lo < x < hi and y == ya:
                    return "C18 overlap: edge (%r,%r) at height %r/2 runs through node %r in column %r" % (a, b, ya, v, x)
    return None


def case_stats(cases, results):
    cols3 = span = par = 0
    for c, r in zip(cases, results):
        if isinstance(r, dict):
            continue
        xy = {v: (x, y) for v, x, y in r}
        ncol = len({x for x, _ in xy.values()})
        cols3 += ncol >= 3
        span += any(abs(xy[a][0] - xy[b][0]) > 1 for a, b in c["edges"])
        sizes = {}
        for x, _ in xy.values():
            sizes[x] = sizes.get(x, 0) + 1
        par += any(sizes.get(x, 0) > 1 and sizes.get(x + 1, 0) > 1 and sizes[x] % 2 == sizes[x + 1] % 2 for x in sizes)
    return {"cases": len(cases), "ge3_columns": cols3, "with_spanning_edge": span, "equal_parity_adjacent": par}


# ----------------------------------------------------------------------------------------------- self test

if __name__ == "__main__":
    import tempfile, shutil
    seed = int(sys.argv[1]) if len(sys.argv) > 1 else 20260930
    n_random = int(sys.argv[2]) if len(sys.argv) > 2 else 300
    repo = os.environ.get("VERIF_REPO", "/repo")
    rng = random.Random(seed)
    cases = gen_cases(rng, n_random, exhaustive_upto=4)
    results = run_impl(repo, cases)
    work = tempfile.mkdtemp(prefix="ois-layout-corr-", dir="/var/tmp")
    bad, spec_bad, compared = [], [], 0
    try:
        for k in range(0, len(cases), MAX_CASES_PER_FILE):
            cs, rs = cases[k:k + MAX_CASES_PER_FILE], results[k:k + MAX_CASES_PER_FILE]
            failing, out = compare(cs, rs, work, name="layout_cases_%d" % (k // MAX_CASES_PER_FILE))
            if failing is None:
                print("coqc failed:\n" + out[-3000:])
                sys.exit(2)
            compared += len(cs)
            bad += [k + i for i in failing]
        for i, (c, r) in enumerate(zip(cases, results)):
            msg = spec_check(c, r)
            if msg:
                spec_bad.append((i, msg))
    finally:
        shutil.rmtree(work, ignore_errors=True)
    print("stats:", json.dumps(case_stats(cases, results)))
    print("compared %d cases (model vs implementation): %d disagreements" % (compared, len(bad)))
    for i in bad[:5]:
        print("  DISAGREE case %d: %s -> impl %s" % (i, json.dumps(cases[i]), json.dumps(results[i])))
    print("spec_check on the implementation's output: %d violations" % len(spec_bad))
    for i, msg in spec_bad[:5]:
        print("  SPEC case %d: %s: %s" % (i, msg, json.dumps(cases[i])))
    sys.exit(0 if not bad and not spec_bad else 1)
