"""Generic driver for kernel-level properties: a proved Gallina model of one algorithm, tied to the
implementation by running both on the same generated inputs (corr/<name>.py protocol)."""
import os, json, time
import common


def proof_step(ctx, regen=()):
    """Regenerate Gen files, build Properties/<prop>.v. Returns (ok, theorems, log)."""
    lock = ctx.coq_lock()
    try:
        if regen:
            ok, msg = ctx.regen(regen)
            ctx.notes.append("regen: " + msg[:500])
            if not ok:
                return False, [], msg
        ok, thms, log = ctx.check_property_file()
    finally:
        lock.close()
    cov = ctx.coverage
    cov["obligations"] = max(1, len(thms))
    cov["discharged"] = len(thms) if ok else 0
    cov["obligation_names"] = ["OIS.Properties.%s.%s" % (ctx.prop, t) for t in thms]
    cov["checker_cmd"] = "make -C /verif/coq theories/Properties/%s.vo && coqc theories/Properties/%s.v (full .vo build, Print Assumptions captured)" % (ctx.prop, ctx.prop)
    if ctx.tier == "thorough" and ok:
        import subprocess
        r = subprocess.run(["timeout", "1200", "coqchk", "-silent", "-o", "-Q", os.path.join(common.COQ, "theories"), "OIS",
                            "OIS.Properties.%s" % ctx.prop], capture_output=True, text=True, cwd=common.COQ)
        tail = (r.stdout + r.stderr)[-1500:]
        cov["coqchk"] = {"exit": r.returncode, "tail": tail}
        if r.returncode != 0:
            ok = False
            log += "\ncoqchk failed: " + tail
    return ok, thms, log


def corr_step(ctx, mod, cases, chunk, label, run_impl=None, coq_file=None):
    """Run implementation + Coq model on cases; returns (disagreeing indices, results, all_evaluated)."""
    run_impl = run_impl or mod.run_impl
    coq_file = coq_file or mod.coq_file
    results = run_impl(ctx.repo_copy, cases)
    files = []
    for k in range(0, len(cases), chunk):
        files.append(("%s_%04d" % (label, k // chunk), coq_file(cases[k:k + chunk], results[k:k + chunk])))
    outs = ctx.coq_eval_many(files)
    failing, all_ok = [], True
    for k, (ok, out) in enumerate(outs):
        fl = common.parse_coq_nat_list(out) if ok else None
        if fl is None:
            all_ok = False
            ctx.notes.append("coq evaluation of %s chunk %d failed: %s" % (label, k, out[-500:]))
            continue
        failing += [k * chunk + i for i in fl]
    return failing, results, all_ok


def obligation_violation(ctx, thms, log, extra=None):
    payload = {"what": "a proof obligation of OIS.Properties.%s no longer checks" % ctx.prop,
               "theorems": thms, "coq_log_tail": log[-2500:]}
    if extra:
        payload.update(extra)
    ctx.violation(payload, no_input=True)
