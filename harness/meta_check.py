"""Metamorphic checks on the implementation, tied to the model: the same abstract scenario rendered in
several ways (array order: C14; reference spelling, names, ids: C15) must get the same verdict, and that
verdict must be the model's."""
import random, json, copy, collections
import common, kernel, engine, impl, scenario as S, mutators as M


def renumber(s, rng):
    """Consistently renumber ids and rename names / variables / attribute names with injective maps."""
    s = copy.deepcopy(s)
    maps = {}

    def m(kind, i):
        d = maps.setdefault(kind, {})
        if i not in d:
            while True:
                v = rng.randrange(0, 400)
                if v not in d.values():
                    d[i] = v
                    break
        return d[i]

    def ref(r):
        return None if r is None else (r[0], m(r[0], r[1]))

    def operand(o):
        if o[0] == "act":
            return ("act", ref(o[1]), [m("attr", n) for n in o[2]])
        if o[0] == "var":
            return ("var", m("group", o[1]), [m("attr", n) for n in o[2]])
        return o
    for p in s["parties"]:
        p["id"], p["name"] = m("party", p["id"]), m("nparty", p["name"])
    for t in s["otypes"]:
        t["id"], t["name"] = m("type", t["id"]), m("ntype", t["name"])
        for a in t["attrs"]:
            a["name"] = m("attr", a["name"])
            if a["kind"][0] != "F":
                a["kind"] = (a["kind"][0], ref(a["kind"][1]))
    for p in s["promises"]:
        p["id"], p["name"], p["type"], p["ctx"] = m("promise", p["id"]), m("npromise", p["name"]), ref(p["type"]), ref(p["ctx"])
    for a in s["actions"]:
        a["id"], a["name"] = m("action", a["id"]), m("naction", a["name"])
        a["party"], a["promise"], a["ctx"], a["dep"] = ref(a["party"]), ref(a["promise"]), ref(a["ctx"]), ref(a["dep"])
        op = a["op"]
        mode, sel = op["incl"]
        op["incl"] = (mode, None if sel is None else [m("attr", n) for n in sel])
        op["defaults"] = [(m("attr", n), sh) for n, sh in op["defaults"]]
        op["edges"] = [(m("attr", n), ref(r)) for n, r in op["edges"]]
        if op["appends"] is not None:
            op["appends"] = (ref(op["appends"][0]), [m("attr", n) for n in op["appends"][1]])
    for c in s["checkpoints"]:
        c["id"], c["alias"], c["ctx"] = m("checkpoint", c["id"]), m("ncheckpoint", c["alias"]), ref(c["ctx"])
        c["deps"] = [("ref", ref(d[1])) if d[0] == "ref" else ("cmp", operand(d[1]), d[2], operand(d[3])) for d in c["deps"]]
    for g in s["groups"]:
        g["id"], g["name"], g["ctx"], g["dep"], g["var"] = m("group", g["id"]), m("ngroup", g["name"]), ref(g["ctx"]), ref(g["dep"]), m("var", g["var"])
        if g["src"][0] == "P":
            g["src"] = ("P", ref(g["src"][1]), [m("attr", n) for n in g["src"][2]])
        else:
            g["src"] = ("V", m("group", g["src"][1]), [m("attr", n) for n in g["src"][2]])
    return s


def variants_c14(s, rng, k):
    out = []
    seed0 = rng.randrange(1 << 30)
    # one spelling policy per scenario, the same in all its renderings: everything by id, or per entity (half of the
    # entities by alias) with names that are the decimal ids of other entities
    per_entity = seed0 % 2 == 1
    for v in range(k):
        r = {"spelling": "entity" if per_entity else "id", "shuffle": v > 0, "descriptive": False, "seed": seed0 + v, "numeric_names": per_entity}
        out.append((s, S.render(s, random.Random(r["seed"]), r["spelling"], r["shuffle"], False, r["numeric_names"]), r))
    return out


def variants_c15(s, rng, k, force_id=False):
    out = []
    for v in range(k + 2):
        if v == k + 1:
            # names that differ only in letter case, references by alias
            r = {"spelling": "alias" if not force_id else "id", "shuffle": False, "descriptive": False, "seed": rng.randrange(1 << 30), "renumbered": False,
                 "numeric_names": "case"}
            out.append((s, S.render(s, random.Random(r["seed"]), r["spelling"], False, False, "case"), r))
        elif v == k:
            # every entity named like its own id, references by alias
            r = {"spelling": "alias" if not force_id else "id", "shuffle": False, "descriptive": False, "seed": rng.randrange(1 << 30), "renumbered": False,
                 "numeric_names": "own"}
            out.append((s, S.render(s, random.Random(r["seed"]), r["spelling"], False, False, "own"), r))
        elif v < 3:
            r = {"spelling": ["id", "alias", "mixed"][v] if not force_id else "id", "shuffle": False, "descriptive": False, "seed": rng.randrange(1 << 30), "renumbered": False,
                 "numeric_names": True if v == 2 else ("odd" if v == 1 else False)}
            out.append((s, S.render(s, random.Random(r["seed"]), r["spelling"], False, False, r["numeric_names"]), r))
        else:
            s2 = renumber(s, rng)
            r = {"spelling": "mixed" if not force_id else "id", "shuffle": False, "descriptive": False, "seed": rng.randrange(1 << 30), "renumbered": True}
            out.append((s2, S.render(s2, random.Random(r["seed"]), r["spelling"], False, False), r))
    return out


def run_meta(ctx, variants_fn, n_valid, n_mut, what, rule, trusted, k=4):
    ok, thms, log = kernel.proof_step(ctx, regen=("tables",))
    rng = random.Random(ctx.seed)
    scale = 1 if ctx.tier == "quick" else 10
    items = []
    def add(s, kind, name=None, owner=None, desc=None):
        g = engine.scen_hash(s)
        force = name in M.FORCE_ID_SPELLING if name else False
        vs = variants_fn(s, rng, k) if variants_fn is variants_c14 else variants_fn(s, rng, k, force)
        for (sv, doc, r) in vs:
            items.append(engine.Item(sv, doc, kind, mutator=name, owner=owner, desc=desc, render=r, group=g))
    for i in range(n_valid * scale):
        add(S.gen_valid(rng, threads=(i % 2 == 1)), "valid")
    for i in range(n_mut * scale):
        # every sixth mutant is one whose detection could depend on order or spelling
        only = ("duplicate_composite", "duplicate_milestone", "duplicate_attribute", "identical_operands", "variable_name_repeats_in_chain", "appends_to_settable_collection") if i % 5 == 0 else None
        only = tuple(m for m in (only or ()) if m in M.MUTATORS) or None
        s, name, owner, desc = M.mutate(rng, only=only, threads=(i % 2 == 1))
        add(s, "mutant", name, owner, desc)
    if variants_fn is variants_c14:
        # the settable family of C07 (which action shape makes which attribute settable; several actions on one object)
        import checks.c07 as _c07
        for it in _c07.settable_family(ctx, rng):
            add(it.scenario, "settable", it.mutator, "C07", it.desc)
    evaluated = engine.run_items(ctx, items)
    if variants_fn is variants_c14:
        # the other order-free arrays of the statement: pipelines, variable declarations, filter clauses, outputs
        # (scenarios with pipelines and their single-fault mutants), import entries and connections
        import pipes, imports as I
        pitems, iitems = [], []

        def addp(s, kind, name=None, owner=None, desc=None):
            g = "p" + engine.scen_hash(s)
            for (sv, doc, r) in variants_c14(s, rng, k):
                pitems.append(engine.Item(sv, doc, kind, mutator=name, owner=owner, desc=desc, render=r, group=g))
        for i in range(max(1, n_valid // 2) * scale):
            addp(pipes.gen_valid_p(rng, threads=(i % 2 == 1), n_pipes=rng.choice([1, 2, 2]))[0], "valid-pipelines")
        for i in range(max(1, n_mut // 2) * scale):
            # every fourth mutant is one whose detection could depend on the position in an order-free array
            only = ("p_filter_ill_typed_beside_group", "p_filter_ill_typed", "p_output_type_mismatch", "p_checkpoint_compares_written", "p_write_settable_attribute") if i % 3 == 0 else ("C08", "C09")
            s, name, owner, desc = pipes.mutate_p(rng, only=only, threads=(i % 2 == 1))
            if name in M.FORCE_ID_SPELLING or True:
                addp(s, "mutant-pipelines", name, owner, desc)
        evaluated = engine.run_items_grouped(ctx, pitems, coq_file_fn=pipes.coq_cases_file_p) and evaluated
        for i in range(max(1, n_valid // 3) * scale + max(1, n_mut // 3) * scale):
            if i < max(1, n_valid // 3) * scale:
                case, name, desc = I.gen_valid_i(rng, threads=(i % 3 == 0)), None, None
            else:
                case, name, desc = I.mutate_i(rng)
            seed0 = rng.randrange(1 << 30)
            for v in range(k):
                r = {"spelling": "id", "shuffle": v > 0, "descriptive": False, "seed": seed0 + v}
                doc = I.render_i(case, ctx.repo_copy, random.Random(r["seed"]), r["spelling"], r["shuffle"], False)
                iitems.append(engine.Item(case, doc, "valid-imports" if name is None else "mutant-imports", mutator=name, owner="C16" if name else None,
                                          desc=desc, render=r, group="i%d" % i))
        evaluated = engine.run_items_grouped(ctx, iitems, coq_file_fn=I.coq_cases_file_i) and evaluated
        for it in iitems:
            it.scenario = {"native": it.scenario["native"], "imports": [{kk: vv for kk, vv in imp.items() if kk != "builder"} for imp in it.scenario["imports"]]}
        # import trees: the root's `imports` array as generated and reversed (a file reached by two entries, each with
        # its own connections, must be stitched whichever entry is met first)
        okd, ditems = engine.import_tree_family(ctx, rng, max(2, n_valid // 4) * scale, shapes=["diamond", "diamond_plus", "chain3_shortcut", "deep_diamond", "diamond", None],
                                                reversed_too=True, do_report=False)
        evaluated = okd and evaluated
        items = items + pitems + iitems + ditems
    if variants_fn is variants_c15:
        # reference spelling inside pipelines (sources, traversal refs, filter operands, the written promise)
        import pipes
        pitems = []

        def addp15(s, kind, name=None, owner=None, desc=None):
            g = "p" + engine.scen_hash(s)
            for v, sp in enumerate(("id", "alias", "mixed", "mixed")):
                r = {"spelling": sp, "shuffle": False, "descriptive": False, "seed": rng.randrange(1 << 30), "numeric_names": "odd" if v == 3 else False}
                pitems.append(engine.Item(s, S.render(s, random.Random(r["seed"]), sp, False, False, r["numeric_names"]), kind, mutator=name, owner=owner, desc=desc, render=r, group=g))
        for i in range(max(1, n_valid // 2) * scale):
            addp15(pipes.gen_valid_p(rng, threads=(i % 2 == 1), n_pipes=rng.choice([1, 2, 2]))[0], "valid-pipelines")
        for i in range(max(1, n_mut // 2) * scale):
            only = ("p_read_own_object", "p_filter_reads_own_object", "p_checkpoint_compares_written", "p_write_settable_attribute") if i % 3 == 0 else ("C08", "C09")
            s, name, owner, desc = pipes.mutate_p(rng, only=only, threads=(i % 2 == 1))
            if name not in M.FORCE_ID_SPELLING:
                addp15(s, "mutant-pipelines", name, owner, desc)
        evaluated = engine.run_items_grouped(ctx, pitems, coq_file_fn=pipes.coq_cases_file_p) and evaluated
        items = items + pitems
    if variants_fn is variants_c15:
        # importing scenarios: reference spelling across files, and renumbering of the native checkpoints (dense from 0,
        # dense from 1, reversed) -- ids that validation hands out itself must never meet ids of the document
        import imports as I, copy as _copy
        iitems = []

        def renumber_native_checkpoints(case, mapping):
            case = {"native": _copy.deepcopy(case["native"]), "builder": case["builder"],
                    "imports": [dict(imp, conns=_copy.deepcopy(imp["conns"])) for imp in case["imports"]]}

            def walk(x):
                if isinstance(x, (tuple, list)):
                    if len(x) == 2 and x[0] == "checkpoint" and isinstance(x[1], int) and x[1] in mapping:
                        return type(x)(("checkpoint", mapping[x[1]]))
                    return type(x)(walk(y) for y in x)
                if isinstance(x, dict):
                    return {kk: walk(vv) for kk, vv in x.items()}
                return x
            nat = case["native"]
            for c in nat["checkpoints"]:
                c["id"] = mapping.get(c["id"], c["id"])
            for key in ("actions", "groups"):
                nat[key] = walk(nat[key])
            for c in nat["checkpoints"]:
                c["deps"] = walk(c["deps"])
            for imp in case["imports"]:
                for cn in imp["conns"]:
                    cn["add"] = tuple(walk(cn["add"]))
            return case
        n_imp = max(1, n_valid // 3) * scale + max(1, n_mut // 4) * scale
        for i in range(n_imp):
            if i < max(1, n_valid // 3) * scale:
                case, name, desc = I.gen_valid_i(rng, threads=(i % 3 == 0)), None, None
            else:
                case, name, desc = I.mutate_i(rng)
            ids = sorted(c["id"] for c in case["native"]["checkpoints"])
            if len(set(ids)) != len(ids) or any(x >= 900 for x in ids):
                continue
            maps = [None, {x: j for j, x in enumerate(ids)}, {x: j + 1 for j, x in enumerate(ids)}, {x: ids[len(ids) - 1 - j] for j, x in enumerate(ids)}]
            # checkpoint ids that are referenced but not declared (dangling on purpose) must stay undeclared under
            # every renumbering: they move to ids no native checkpoint takes
            refd = set()
            def collect(x):
                if isinstance(x, (tuple, list)):
                    if len(x) == 2 and x[0] == "checkpoint" and isinstance(x[1], int):
                        refd.add(x[1])
                    for y in x:
                        collect(y)
                elif isinstance(x, dict):
                    for y in x.values():
                        collect(y)
            collect([case["native"]["actions"], case["native"]["groups"], [c["deps"] for c in case["native"]["checkpoints"]],
                     [cn["add"] for imp in case["imports"] for cn in imp["conns"]]])
            free = sorted(x for x in refd if x not in ids and 0 <= x < 900)
            for mp in maps[1:]:
                for k, f in enumerate(free):
                    mp[f] = 700 + k
            for v, (sp, mp) in enumerate(zip(("id", "alias", "mixed", "mixed"), maps)):
                cv = case if mp is None else renumber_native_checkpoints(case, mp)
                r = {"spelling": sp, "shuffle": False, "seed": rng.randrange(1 << 30), "native_checkpoint_ids": "as generated" if mp is None else sorted(mp[x] for x in ids)}
                doc = I.render_i(cv, ctx.repo_copy, random.Random(r["seed"]), sp, False, False)
                iitems.append(engine.Item(cv, doc, "valid-imports" if name is None else "mutant-imports", mutator=name, owner="C16" if name else None,
                                          desc=desc, render=r, group="i%d" % i))
        # the model's verdict does not depend on the numbering (Properties/C15.v): evaluate it once per scenario
        evaluated = engine.run_items_grouped(ctx, iitems, coq_file_fn=I.coq_cases_file_i, chunk=8) and evaluated
        for it in iitems:
            it.scenario = {"native": it.scenario["native"], "imports": [{kk: vv for kk, vv in imp.items() if kk != "builder"} for imp in it.scenario["imports"]]}
        items = items + iitems
    if variants_fn is variants_c15:
        # names outside the alias alphabet (".", ":", a leading "_"): whatever the verdict on such a document is, it is
        # the same whether its references are written by id or by name (implementation alone; the abstract scenario
        # has no notion of spelling, so these documents are not shown to the model)
        import impl as _impl, copy as _cp
        KINDS = {"party": ("parties", "name"), "object_type": ("object_types", "name"), "object_promise": ("object_promises", "name"),
                 "action": ("actions", "name"), "checkpoint": ("checkpoints", "alias"), "thread_group": ("thread_groups", "name")}

        def rename(doc, kind, make):
            coll, field = KINDS[kind]
            ents = [e for e in doc.get(coll) or [] if isinstance(e.get(field), str)]
            if not ents:
                return None
            mp = {e[field]: make(e[field]) for e in ents}

            def walk(x):
                if isinstance(x, dict):
                    return {kk: walk(vv) for kk, vv in x.items()}
                if isinstance(x, list):
                    return [walk(y) for y in x]
                if isinstance(x, str):
                    for old, new in mp.items():
                        x = x.replace("%s:{%s}" % (kind, old), "%s:{%s}" % (kind, new))
                    return x
                return x
            d = walk(doc)
            for e in d[coll]:
                if e.get(field) in mp:
                    e[field] = mp[e[field]]
            return d
        pairs = []
        makers = [("dot inside", lambda n: n[:1] + "." + n[1:]), ("dot at the end", lambda n: n + " Inc."), ("colon", lambda n: n + ":x"), ("leading underscore", lambda n: "_" + n)]
        for i in range(8 * scale):
            s0 = S.gen_valid(rng, threads=(i % 2 == 1))
            seed = rng.randrange(1 << 30)
            d_id, d_al = S.render(s0, random.Random(seed), "id", False, False), S.render(s0, random.Random(seed), "alias", False, False)
            for kind in KINDS:
                wh, mk = makers[(i + len(pairs)) % len(makers)]
                a, b_ = rename(d_id, kind, mk), rename(d_al, kind, mk)
                if a is not None and b_ is not None:
                    pairs.append((kind, wh, a, b_))
        pool = _impl.Pool(ctx)
        res = pool.validate_many([x for p_ in pairs for x in (p_[2], p_[3])])
        pool.close()
        nflip = 0
        for j, (kind, wh, a, b_) in enumerate(pairs):
            ra, rb = res[2 * j], res[2 * j + 1]
            if (ra["outcome"] == "accept") != (rb["outcome"] == "accept"):
                nflip += 1
                if nflip <= 2:
                    acc, rej, racc, rrej = (a, b_, "id", "alias") if ra["outcome"] == "accept" else (b_, a, "alias", "id")
                    ctx.violation({"what": what, "kind": "names outside the alias alphabet (%s names: %s)" % (kind, wh),
                                   "accepted_rendering": {"spelling": racc}, "accepted_document": acc,
                                   "rejected_rendering": {"spelling": rrej}, "rejected_document": rej,
                                   "rejected_errors": (rb if acc is a else ra)["errors"][:4], "exc": (rb if acc is a else ra)["exc"]})
        ctx.coverage["odd_name_pairs"] = {"pairs": len(pairs), "verdict_flips": nflip, "accepted_both": sum(1 for j in range(len(pairs)) if res[2 * j]["outcome"] == "accept" and res[2 * j + 1]["outcome"] == "accept")}
    # metamorphic relation on the implementation alone
    by = collections.defaultdict(list)
    for it in items:
        by[it.group].append(it)
    flips = []
    for g, its in by.items():
        outs = set(it.res["outcome"] == "accept" for it in its)
        if len(outs) > 1:
            flips.append(its)
    for its in flips[:3]:
        a = next(it for it in its if it.res["outcome"] == "accept")
        b = next(it for it in its if it.res["outcome"] != "accept")
        ctx.violation({"what": what, "kind": a.kind, "mutator": a.mutator, "fault": a.desc,
                       "accepted_rendering": a.render, "accepted_document": a.doc,
                       "rejected_rendering": b.render, "rejected_document": b.doc, "rejected_errors": b.res["errors"][:4], "exc": b.res["exc"],
                       "scenario": a.scenario})
    if not flips:
        engine.report(ctx, items, "T3 correspondence: whole validator vs Coq model on re-rendered scenarios")
    else:
        ctx.coverage["evaluations"] = len(items)
        ctx.coverage["distinct_nontrivial"] = len(by)
        ctx.coverage["disagreements_checked"] = len(flips)
    ctx.coverage.update({"rule": rule, "samples": engine.sample_of(items[:2] + [it for it in items if it.kind == "mutant"][:1]),
                         "groups": len(by), "renderings_per_scenario": k, "verdict_flips": len(flips),
                         "trusted_base": trusted + ["harness/scenario.py renderer: the renderings differ ONLY in the dimension under test (checked by construction: same abstract scenario, same spelling seed policy)"]})
    if not evaluated and not ctx.violations:
        kernel.obligation_violation(ctx, thms, "; ".join(ctx.notes[-3:]), {"correspondence": "Coq evaluation failed"})
    if not ok and not ctx.violations:
        kernel.obligation_violation(ctx, thms, log)
