"""Developer experiment: valid scenarios -> implementation vs Coq model."""
import sys, os, json, random, time
sys.path.insert(0, os.path.dirname(os.path.abspath(__file__)))
import common, impl, scenario as S

def main(n=200, seed=1, threads=False):
    ctx = common.Ctx("EXP", "quick", seed)
    ctx.snapshot()
    rng = random.Random(seed)
    scs = [S.gen_valid(rng, threads=threads) for _ in range(n)]
    docs = [S.render(s, random.Random(i), spelling="mixed", shuffle=(i % 2 == 1), descriptive=(i % 3 == 0)) for i, s in enumerate(scs)]
    pool = impl.Pool(ctx)
    res = pool.validate_many(docs)
    pool.close()
    acc = [r["outcome"] == "accept" for r in res]
    print("impl accepts %d / %d; raises %d" % (sum(acc), n, sum(r["outcome"] == "raise" for r in res)))
    t = time.time()
    ok, out = ctx.coq_eval("cases", S.coq_cases_file(scs, acc))
    print("coq ok", ok, "%.1fs" % (time.time() - t))
    fails = common.parse_coq_nat_list(out)
    if fails is None:
        print(out[-3000:]); return
    print("disagreements:", len(fails), fails[:20])
    for i in fails[:4]:
        print("---- case", i, "impl:", res[i]["outcome"], res[i]["errors"][:3], res[i]["exc"])
        if os.environ.get("DUMP"):
            print(json.dumps(docs[i])[:3000])
    return scs, docs, res, fails

if __name__ == "__main__":
    main(int(sys.argv[1]) if len(sys.argv) > 1 else 200, int(sys.argv[2]) if len(sys.argv) > 2 else 1)

def mutants(n=300, seed=2):
    ctx = common.Ctx("EXP", "quick", seed)
    ctx.snapshot()
    rng = random.Random(seed)
    import mutators as M; ms = [M.mutate(rng) for _ in range(n)]
    scs = [m[0] for m in ms]
    docs = [S.render(s, random.Random(i), spelling=("id" if m[1] in M.FORCE_ID_SPELLING else "mixed"), shuffle=(i % 2 == 1)) for i, (s, m) in enumerate(zip(scs, ms))]
    pool = impl.Pool(ctx); res = pool.validate_many(docs); pool.close()
    acc = [r["outcome"] == "accept" for r in res]
    import collections
    print("impl accepts %d / %d; raises %d" % (sum(acc), n, sum(r["outcome"] == "raise" for r in res)))
    by = collections.Counter((m[1], a) for m, a in zip(ms, acc)); print(sorted(by.items()))
    ok, out = ctx.coq_eval("cases", S.coq_cases_file(scs, acc))
    fails = common.parse_coq_nat_list(out)
    if fails is None: print(out[-3000:]); return
    print("disagreements:", len(fails), collections.Counter(ms[i][1] for i in fails))
    seen=set()
    for i in fails:
        if ms[i][1] in seen: continue
        seen.add(ms[i][1])
        print("---- case", i, ms[i][1], ms[i][3], "| impl:", res[i]["outcome"], res[i]["errors"][:2], res[i]["exc"])
    return ms, docs, res, fails

def threads(n=200, seed=11):
    return main(n, seed, threads=True)

def tmut(n=300, seed=3, only=None):
    ctx = common.Ctx("EXP", "quick", seed); ctx.snapshot()
    import mutators as M, engine, collections
    rng = random.Random(seed)
    items = engine.make_mutant_items(ctx, rng, n, owners=only, threads=True)
    engine.run_items(ctx, items)
    by = collections.Counter((it.mutator, it.res["outcome"], it.model_accepts) for it in items)
    for k, v in sorted(by.items()): print(v, k)
    seen = set()
    for it in items:
        if (it.res["outcome"] == "accept") != it.model_accepts and it.mutator not in seen:
            seen.add(it.mutator)
            print("---- DISAGREE", it.mutator, it.desc, "| impl:", it.res["outcome"], it.res["errors"][:2], it.res["exc"], "model:", it.model_accepts)
    return items

def imp(n=120, seed=31, mut=False):
    import imports as I, engine, collections
    ctx = common.Ctx("EXP", "quick", seed); ctx.snapshot()
    rng = random.Random(seed)
    items = []
    for i in range(n):
        if mut:
            case, name, desc = I.mutate_i(rng)
        else:
            case, name, desc = I.gen_valid_i(rng, threads=(i % 3 == 0)), None, None
        r = {"spelling": "mixed", "shuffle": i % 2 == 1, "seed": rng.randrange(1 << 30)}
        doc = I.render_i(case, ctx.repo_copy, random.Random(r["seed"]), r["spelling"], r["shuffle"], False)
        items.append(engine.Item(case, doc, "mutant" if mut else "valid", mutator=name, owner="C16", desc=desc, render=r, group=str(i)))
    engine.run_items(ctx, items, coq_file_fn=I.coq_cases_file_i)
    by = collections.Counter((it.mutator, it.res["outcome"], it.model_accepts) for it in items)
    for k, v in sorted(by.items(), key=str): print(v, k)
    seen = set()
    for it in items:
        if it.model_accepts is None:
            print("UNEVALUATED"); break
        if (it.res["outcome"] == "accept") != it.model_accepts and (it.mutator, it.res["errors"][:1].__str__()[:60]) not in seen:
            seen.add((it.mutator, it.res["errors"][:1].__str__()[:60]))
            print("---- DISAGREE", it.mutator, it.desc, "| impl:", it.res["outcome"], it.res["errors"][:3], it.res["exc"], "model:", it.model_accepts)
    print(ctx.notes[-2:])
    return items
