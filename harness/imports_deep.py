"""Import trees (C16 / C02, import depth > 1): importing scenarios whose imported schemas import schemas themselves.

A case is
  {"native": scenario, "builder": Builder, "tainted": set, "dependents": [(action id, fid, imported action id)],
   "entries": [entry, ...],                       # the native "imports" array, in document order
   "files": {fid: {"abs": OFF * fid, "schema": scenario, "builder": Builder, "entries": [entry, ...],
                   "file": name under schemas/ or None, "write": bool, "unreadable": bool, ...}}}
  entry = {"fid": fid, "conns": [{"to": (kind, local id), "add": (kind, id in the importer), "render_to": None |
           (fid' | None, kind, local id)}], "force": None | "id" | "alias"}

Files are numbered so that an importer has a smaller number than what it imports (the native schema is 0); the
absolute id range of file f is [OFF * f, OFF * f + OFF).  A scenario refers to entity i of a (directly or
transitively) imported file f' by the id (abs(f') - abs(own file)) + i, which the renderer spells
`schema:{file}.kind:i`; this is the relative addressing of coq/theories/Model/ImportsDeep.v, whose [itree] repeats a
file at every entry that names it (to_coq_deep)."""
import os, json, copy, random
import scenario as S, mutators as M, imports as I, pipes as P

OFF = I.OFF
STITCH_FROM = 900   # local ids from here on exist in no generated schema (the model numbers stitched checkpoints there)
PIPELINES_IN_LEAVES = True      # imported files that import nothing get a pipeline 4 times out of 10
MAX_FILES = 5          # ids from 7000 on are reserved by the scenario renderer (references into schemas not imported)

# parents of files 1..n (0 = the native schema); every shape has import depth >= 2
SHAPES = {
    "chain2": {1: [0], 2: [1]},
    "chain3": {1: [0], 2: [1], 3: [2]},
    "diamond": {1: [0], 2: [0, 1]},
    "fan": {1: [0], 2: [1], 3: [1]},
    "deep_diamond": {1: [0], 2: [0], 3: [1, 2]},
    "inner_diamond": {1: [0], 2: [1], 3: [1, 2]},
    "chain3_shortcut": {1: [0], 2: [1], 3: [0, 2]},
    "two_branches": {1: [0], 2: [0], 3: [1], 4: [2]},
    # the root lists a file that another of its imports has loaded already, and further files after it
    "diamond_plus": {1: [0], 2: [0, 1], 3: [0]},
    "diamond_plus2": {1: [0], 2: [0, 1], 3: [0], 4: [0, 3]},
}
SHAPE_WEIGHTS = ["chain2", "chain2", "chain3", "chain3", "diamond", "diamond", "diamond", "fan", "deep_diamond",
                 "inner_diamond", "chain3_shortcut", "two_branches", "diamond_plus", "diamond_plus", "diamond_plus", "diamond_plus2",
                 "random", "random", "random"]


def _random_shape(rng):
    for _ in range(50):
        n = rng.choice([2, 3, 3, 4, 4, 5])
        parents, depth = {}, {0: 0}
        for j in range(1, n + 1):
            cands = [i for i in range(j) if depth[i] < 3]
            k = 1 if rng.random() < 0.65 else 2
            parents[j] = sorted(rng.sample(cands, min(k, len(cands))))
            depth[j] = 1 + max(depth[i] for i in parents[j])
        if max(depth.values()) >= 2:
            return parents
    return dict(SHAPES["chain2"])


def file_depths(case):
    """fid -> length of the longest import path from the native schema"""
    depth = {}

    def rec(entries, d):
        for e in entries:
            if depth.get(e["fid"], 0) < d:
                depth[e["fid"]] = d
                rec(case["files"][e["fid"]]["entries"], d + 1)
    rec(case["entries"], 1)
    return depth


def reachable(case, fid):
    """files reachable from fid (None / 0 = native) through import entries, in first-visit order"""
    out = []

    def rec(entries):
        for e in entries:
            if e["fid"] not in out:
                out.append(e["fid"])
                rec(case["files"][e["fid"]]["entries"])
    rec(case["entries"] if not fid else case["files"][fid]["entries"])
    return out


def owner(case, fid):
    """the record holding scenario / builder / entries of file fid (0 = the native schema)"""
    if not fid:
        return {"abs": 0, "schema": case["native"], "builder": case.get("builder"), "entries": case["entries"],
                "tainted": case.get("tainted", set()), "dependents": case.get("dependents", [])}
    return case["files"][fid]


def all_entries(case):
    """[(importer fid, entry)] in the order the implementation stitches... visits them (depth first, document order);
    entries of a file are listed once"""
    out, seen = [], set()

    def rec(pf, entries):
        for e in entries:
            out.append((pf, e))
            if e["fid"] not in seen:
                seen.add(e["fid"])
                rec(e["fid"], case["files"][e["fid"]]["entries"])
    rec(0, case["entries"])
    return out


def _next_id(s, coll):
    return max([e["id"] for e in s[coll]] + [0]) + 1


def _add_dependent(rng, rec, rel, fx):
    """a new action of the importing scenario rec["schema"] that depends on an action of file record fx (relative base rel)"""
    s, b = rec["schema"], rec["builder"]
    xb = fx["builder"]
    xs = [a for a in fx["schema"]["actions"] if a["ctx"] is None and a["op"]["appends"] is None]
    if not xs:
        return None
    x = rng.choice(xs)
    cmp_ = xb.make_cmp(x["id"])[0]
    sh = lambda o: ("act", ("action", rel + o[1][1]), o[2]) if o[0] == "act" else o
    cmp_ = ("cmp", sh(cmp_[1]), cmp_[2], sh(cmp_[3]))
    aid, pid, cid = _next_id(s, "actions"), _next_id(s, "promises"), _next_id(s, "checkpoints")
    t = rng.choice(s["otypes"])
    s["promises"].append({"id": pid, "name": 300 + pid, "type": ("type", t["id"]), "ctx": None})
    s["checkpoints"].append({"id": cid, "alias": 500 + cid, "gate": None, "deps": [cmp_], "ctx": None})
    s["actions"].append({"id": aid, "name": 400 + aid, "party": ("party", s["parties"][0]["id"]), "promise": ("promise", pid),
                         "ctx": None, "dep": ("checkpoint", cid),
                         "op": {"incl": ("include", [t["attrs"][0]["name"]]), "defaults": [], "edges": [], "appends": None}, "milestones": []})
    b.anc[aid] = set()
    b.creator[pid] = aid
    rec["tainted"].add(aid)
    return aid, x["id"]


def clean_actions(rec):
    """actions of a scenario that do not (transitively) depend on anything imported: safe to mention in a checkpoint
    that a connection adds to an imported entity"""
    s, b, tainted = rec["schema"], rec["builder"], rec["tainted"]
    return [a["id"] for a in s["actions"] if a["ctx"] is None and a["id"] not in tainted
            and not (b.anc.get(a["id"], set()) & tainted) and a["op"]["appends"] is None]


def fresh_cp(rng, rec, on=None, cid=None):
    """a new checkpoint of rec's scenario comparing one of its (clean) actions; returns its reference"""
    s, b = rec["schema"], rec["builder"]
    if on is None:
        cands = clean_actions(rec) or [x["id"] for x in s["actions"] if x["ctx"] is None]
        on = rng.choice(cands)
    if cid is None:
        cid = _next_id(s, "checkpoints")
    s["checkpoints"].append({"id": cid, "alias": 500 + cid, "gate": None, "deps": [b.make_cmp(on)[0]], "ctx": None})
    return ("checkpoint", cid)


def used_cp(rng, rec):
    """a checkpoint of rec's scenario that is referenced already (so that a connection that fails to be stitched does
    not leave a never-referenced checkpoint behind: single faults) and mentions clean actions only; else a fresh one"""
    s = rec["schema"]
    clean = set(clean_actions(rec))
    held = set(a["dep"][1] for a in s["actions"] if a["dep"] is not None and a["ctx"] is None)
    ok = [c["id"] for c in s["checkpoints"] if c["ctx"] is None and c["id"] in held
          and all(d[0] == "cmp" and all(o[0] != "var" and (o[0] != "act" or o[1][1] in clean) for o in (d[1], d[3])) for d in c["deps"])]
    return ("checkpoint", rng.choice(ok)) if ok else fresh_cp(rng, rec)


def drop_conns(case, pf, e):
    """remove the connections of an entry together with the checkpoints that were created for them"""
    s = owner(case, pf)["schema"]
    gone = set(c["add"][1] for c in e["conns"] if c["add"][0] == "checkpoint")
    s["checkpoints"][:] = [c for c in s["checkpoints"] if c["id"] not in gone]
    e["conns"] = []


def hold_cp(rng, rec, cpref):
    """an extra action of rec's scenario (nobody depends on it) whose depends_on is the given checkpoint"""
    s, b = rec["schema"], rec["builder"]
    aid, pid = _next_id(s, "actions"), _next_id(s, "promises")
    t = rng.choice(s["otypes"])
    s["promises"].append({"id": pid, "name": 300 + pid, "type": ("type", t["id"]), "ctx": None})
    s["actions"].append({"id": aid, "name": 400 + aid, "party": ("party", s["parties"][0]["id"]), "promise": ("promise", pid),
                         "ctx": None, "dep": cpref,
                         "op": {"incl": ("include", [t["attrs"][0]["name"]]), "defaults": [], "edges": [], "appends": None}, "milestones": []})
    b.anc[aid] = set()
    b.creator[pid] = aid
    rec["tainted"].add(aid)
    return aid


def targets_of(fx, entry=None):
    isc = fx["schema"]
    used = set(c["to"] for c in entry["conns"]) if entry else set()
    return [t for t in [("action", a["id"]) for a in isc["actions"] if a["ctx"] is None]
            + [("checkpoint", c["id"]) for c in isc["checkpoints"] if c["ctx"] is None] if t not in used]


def gen_valid_deep(rng, threads=False, shape=None, same_text=None):
    for _ in range(40):
        case = _gen_valid_deep(rng, threads, shape, same_text)
        if case is not None and not has_duplicate_composite_deep(case) and cost_estimate(case) <= MAX_COST:
            return case
    raise RuntimeError("could not generate an import tree without duplicate checkpoints")


MAX_COST = 600


def cost_estimate(case):
    """the model evaluates the verdict of a combined schema once per entry of the (spelled out) tree, at a cost that
    grows roughly quadratically with the schema; trees above MAX_COST are not generated (about 5 s of coqc each)"""
    def weight(fid):
        return sum(len(owner(case, f)["schema"]["actions"]) + 2 * len(owner(case, f)["schema"]["groups"]) for f in [fid] + reachable(case, fid))
    tot = [0]

    def rec(fid):
        tot[0] += weight(fid) ** 2
        for e in owner(case, fid)["entries"]:
            rec(e["fid"])
    rec(0)
    return tot[0]


def _gen_valid_deep(rng, threads, shape, same_text):
    name = shape or rng.choice(SHAPE_WEIGHTS)
    parents = _random_shape(rng) if name == "random" else copy.deepcopy(SHAPES[name])
    n = len(parents)
    files = {}
    tfile = rng.randrange(0, n + 1)        # the one schema that gets thread groups (0 = the native one)
    if threads == "nested":
        tfile = rng.choice([j for j in range(1, n + 1) if any(j in parents[k] for k in parents)])      # an importer that is imported
    for fid in range(n, 0, -1):
        # (small files: the cost of the model's verdict grows fast with the size of the combined schema, which is
        #  evaluated once per level of the tree)
        is_leaf = not any(fid in parents[k] for k in parents)
        if PIPELINES_IN_LEAVES and is_leaf and rng.random() < 0.4:
            # a file that imports nothing gets a pipeline (nothing is added to such a file later; its pipelines are not
            # part of the import model -- their rules are C08 / C09 -- but the importing validator namespaces them)
            sc, b = P.gen_valid_p(rng, threads=(threads and fid == tfile), n_actions=rng.choice([2, 2, 3]), n_pipes=1)
        else:
            sc, b = S.gen_valid(rng, rng.choice([2, 2, 3]), threads=(threads and fid == tfile), builder=True)
        files[fid] = {"abs": OFF * fid, "schema": sc, "builder": b, "entries": [], "file": None, "write": True, "unreadable": False,
                      "tainted": set(), "dependents": []}
    native, nb = S.gen_valid(rng, rng.choice([2, 3, 3, 4]), threads=(threads and tfile == 0), builder=True)
    case = {"native": native, "builder": nb, "tainted": set(), "dependents": [], "entries": [], "files": files, "shape": name}
    # import entries, each importer's array in a random order
    for pf in range(0, n + 1):
        kids = [j for j in range(1, n + 1) if pf in parents[j]]
        rng.shuffle(kids)
        if name.startswith("diamond_plus") and rng.random() < 0.6:
            kids.sort()     # the importer of a file first, then the file itself (already loaded by then), then the rest
        owner(case, pf)["entries"].extend({"fid": j, "conns": [], "force": None} for j in kids)
    # references into (directly and transitively) imported files: deepest importers first
    for pf in range(n, -1, -1):
        rec = owner(case, pf)
        for fx in reachable(case, pf):
            if rng.random() < 0.6:
                got = _add_dependent(rng, rec, files[fx]["abs"] - rec["abs"], files[fx])
                if got:
                    rec["dependents"].append((got[0], fx, got[1]))
    # connections: every entry adds fresh checkpoints of its importer (on clean actions) to entities of the imported file
    ents = all_entries(case)
    by_file = {}
    for pf, e in ents:
        by_file.setdefault(e["fid"], []).append((pf, e))
    twins = set()
    for fx, lst in by_file.items():
        # two entries for one file spelled exactly alike (same targets, same add_dependency text: a checkpoint with
        # the same id / alias exists in both importers)
        if len(lst) >= 2 and (same_text if same_text is not None else rng.random() < 0.5):
            (p1, e1), (p2, e2) = lst[0], lst[1]
            r1, r2 = owner(case, p1), owner(case, p2)
            tg = targets_of(files[fx])
            rng.shuffle(tg)
            for tgt in tg[:rng.choice([1, 1, 2])]:
                if not clean_actions(r1) or not clean_actions(r2):
                    break
                cid = max(_next_id(r1["schema"], "checkpoints"), _next_id(r2["schema"], "checkpoints"))
                for r, e in ((r1, e1), (r2, e2)):
                    e["conns"].append({"to": tgt, "add": fresh_cp(rng, r, cid=cid), "render_to": None})
            e1["force"] = e2["force"] = rng.choice(["id", "alias"])
            twins.add(id(e1))
            twins.add(id(e2))
    for pf, e in ents:
        if id(e) in twins:
            continue
        rec = owner(case, pf)
        tg = targets_of(files[e["fid"]])
        rng.shuffle(tg)
        for tgt in tg[:rng.choice([0, 1, 1, 2, 2])]:
            if not clean_actions(rec):
                break
            e["conns"].append({"to": tgt, "add": fresh_cp(rng, rec), "render_to": None})
    return case


def has_duplicate_composite_deep(case):
    """two checkpoints anywhere in the tree with the same gate and the same dependencies after namespacing (the combined
    model compares across files, the implementation per file) -- or inside one file"""
    keys = []
    for pf in [0] + sorted(case["files"]):
        rec = owner(case, pf)
        s = rec["schema"]
        if S.has_duplicate_composite(s):
            return True
        varname = {g["id"]: g["var"] for g in s.get("groups", [])}
        d = rec["abs"]
        for c in s["checkpoints"]:
            deps = []
            for x in c["deps"]:
                if x[0] == "ref":
                    deps.append(("ref", (x[1][0], d + x[1][1])))
                else:
                    ok = []
                    for o in (x[1], x[3]):
                        k = S.operand_key(o, varname)
                        if k[0] == "act":
                            k = ("act", (k[1][0], d + k[1][1]), k[2])
                        elif k[0] == "var":
                            k = ("var", pf, k[1], k[2])
                        ok.append(k)
                    deps.append(("cmp", ok[0], x[2], ok[1]))
            keys.append((c["gate"], tuple(sorted(map(repr, deps)))))
    return len(keys) != len(set(keys))


# ----------------------------------------------------------------------------------------------- rendering
def _imap(case, pf):
    rec = owner(case, pf)
    return {case["files"][fx]["abs"] - rec["abs"]: (case["files"][fx]["file"], case["files"][fx]["schema"]) for fx in reachable(case, pf)}


def _render_entries(case, pf, r, rng):
    rec = owner(case, pf)
    out = []
    for e in rec["entries"]:
        fx = case["files"][e["fid"]]
        rel = fx["abs"] - rec["abs"]
        conns = []
        for c in e["conns"]:
            kind, local = c["to"]
            if c.get("render_to") is not None:
                tf, tk, tl = c["render_to"]
                if not tf:
                    to = r.ref((tk, tl), e["force"])            # an entity of the importer itself
                else:
                    to = "schema:{%s}.%s:%d" % (case["files"][tf]["file"], S.JSON_KIND[tk], tl)
            elif local >= STITCH_FROM:
                to = "schema:{%s}.%s:%d" % (fx["file"], S.JSON_KIND[kind], local)      # no such entity in the imported file
            else:
                to = r.ref((kind, rel + local), e["force"])
            conns.append({"to_ref": to, "add_dependency": r.ref(c["add"], e["force"])})
        d = {"file_name": fx["file"]}
        if conns or e["force"] or rng.random() < 0.5:
            d["connections"] = conns
        out.append(d)
    return out


def render_deep(case, repo_copy, rng=None, spelling="mixed", shuffle=False):
    """writes every imported file (with its own "imports") into the snapshot and returns the native document"""
    rng = rng or random.Random(0)
    for fid in sorted(case["files"]):
        f = case["files"][fid]
        f["file"] = f["file"] or I.file_name_for(f["schema"], rng.random())
    for fid in sorted(case["files"], reverse=True):
        f = case["files"][fid]
        path = os.path.join(repo_copy, "schemas", f["file"] + ".json")
        os.makedirs(os.path.dirname(path), exist_ok=True)
        if f.get("write", True):
            frng = random.Random(rng.randrange(1 << 30))
            r = I.IRenderer(f["schema"], _imap(case, fid), frng, spelling, False, False)
            doc = r.render()
            if f["entries"]:
                doc["imports"] = _render_entries(case, fid, r, frng)
            with open(path, "w") as fh:
                json.dump(doc, fh)
        elif os.path.exists(path):
            os.remove(path)
    r = I.IRenderer(case["native"], _imap(case, 0), rng, spelling, shuffle, False)
    doc = r.render()
    doc["imports"] = _render_entries(case, 0, r, rng)
    return doc


# ----------------------------------------------------------------------------------------------- Coq printing
def _cq_tree(case, pf, e):
    f = case["files"][e["fid"]]
    conns = S.cq_list("(Build_conn %s %s)" % (S.cq_ref(c["to"]), S.cq_ref(c["add"])) for c in e["conns"])
    kids = S.cq_list(_cq_tree(case, e["fid"], k) for k in f["entries"])
    return "(INode (Build_import %d %s %s %s) %s)" % (f["abs"] - owner(case, pf)["abs"], "false" if f.get("unreadable") else "true",
                                                      S.to_coq(f["schema"]), conns, kids)


def to_coq_deep(case):
    return "(%s, %s)" % (S.to_coq(case["native"]), S.cq_list(_cq_tree(case, 0, e) for e in case["entries"]))


COQ_HEADER_D = S.COQ_HEADER.replace("Model.Rules Gen.Tables", "Model.Rules Model.Imports Model.ImportsDeep Gen.Tables")


def coq_cases_file_deep(cases, impl_accepts):
    """(a) indices where the deep model of the current implementation (conforms_deep_kf; it decides the cycle search
    first at every level) differs from the implementation's verdict, (b) indices where the known finding matters"""
    lines = [COQ_HEADER_D, "Definition cases : list ((schema * list itree) * bool) := ["]
    lines.append(";\n".join("  (%s, %s)" % (to_coq_deep(c), "true" if a else "false") for c, a in zip(cases, impl_accepts)))
    lines.append("].")
    lines.append("Fixpoint failing (i : nat) (l : list ((schema * list itree) * bool)) : list nat :=")
    lines.append("  match l with [] => [] | ((n, ks), b) :: r => (if Bool.eqb (conforms_deep_kf default_value_table n ks) b then [] else [i]) ++ failing (S i) r end.")
    # the two comparison tables differ on CONTAINS / DOES_NOT_CONTAIN only: the specification's verdict is evaluated
    # only for trees that use one of them (a coverage counter, not part of the comparison above)
    lines.append("Definition uses_contains (s : schema) : bool := existsb (fun c => existsb (fun d => match d with DCmp _ CONTAINS _ | DCmp _ DOES_NOT_CONTAIN _ => true | _ => false end) (cp_deps c)) (checkpoints s).")
    lines.append("Fixpoint kfhits (i : nat) (l : list ((schema * list itree) * bool)) : list nat :=")
    lines.append("  match l with [] => [] | ((n, ks), b) :: r => (if uses_contains (combine_deep n ks) then if Bool.eqb (conforms_deep_kf default_value_table n ks) (conforms_deep default_value_table n ks) then [] else [i] else []) ++ kfhits (S i) r end.")
    lines.append("Eval vm_compute in (failing 0 cases).")
    lines.append("Eval vm_compute in (kfhits 0 cases).")
    return "\n".join(lines) + "\n"


def strip(case):
    """serialisable copy (no builders) for replays"""
    def rec_(r):
        return {k: (sorted(v) if isinstance(v, set) else v) for k, v in r.items() if k != "builder"}
    return {"native": case["native"], "shape": case.get("shape"), "entries": case["entries"], "dependents": case.get("dependents", []),
            "files": {k: rec_(f) for k, f in case["files"].items()}}


def _has_filter(sc):
    def apps(node):
        for a in node.get("apply", []):
            yield a
        for t in node.get("trav", []):
            for a in apps(t):
                yield a
    return any(a.get("step") is not None and a["step"][0] == "filter" for pl in sc.get("pipelines", []) for a in apps(pl))


def stats(case):
    """what the tree exercises (for the coverage record)"""
    depth = file_depths(case)
    ents = all_entries(case)
    count = {}
    for pf, e in ents:
        count[e["fid"]] = count.get(e["fid"], 0) + 1
    out = {"depth%d" % max(depth.values()): 1, "files": len(case["files"]), "entries": len(ents),
           "diamond": int(any(v > 1 for v in count.values())),
           "identical_text_entries": int(any(e["force"] for _, e in ents)),
           "nested_connections": sum(len(e["conns"]) for pf, e in ents if pf),
           "native_connections": sum(len(e["conns"]) for pf, e in ents if not pf),
           "native_refs_to_depth2plus": sum(1 for (_, fx, _) in case["dependents"] if depth.get(fx, 0) >= 2),
           "intermediate_refs_into_imports": sum(len(f["dependents"]) for f in case["files"].values()),
           "imported_files_with_pipelines": sum(1 for f in case["files"].values() if f["schema"].get("pipelines")),
           "imported_files_with_pipeline_filters": sum(1 for f in case["files"].values() if _has_filter(f["schema"])),
           "imported_files_with_thread_groups": sum(1 for f in case["files"].values() if f["schema"].get("groups"))}
    kinds = {"nested_conn_on_checkpoint": 0, "nested_conn_on_action_with_dep": 0, "nested_conn_on_action_without_dep": 0}
    for pf, e in ents:
        if not pf:
            continue
        fs = case["files"][e["fid"]]["schema"]
        for c in e["conns"]:
            if c["to"][0] == "checkpoint":
                kinds["nested_conn_on_checkpoint"] += 1
            else:
                a = next((a for a in fs["actions"] if a["id"] == c["to"][1]), None)
                kinds["nested_conn_on_action_with_dep" if (a and a["dep"]) else "nested_conn_on_action_without_dep"] += 1
    out.update(kinds)
    return out


# ----------------------------------------------------------------------------------------------- single faults at depth >= 2
DMUT = {}
HINTS = {}      # mutator -> keyword arguments for gen_valid_deep


def dmut(**hints):
    def deco(f):
        DMUT[f.__name__] = f
        HINTS[f.__name__] = hints
        return f
    return deco


def nested_entries(case):
    return [(pf, e) for pf, e in all_entries(case) if pf]


def deep_files(case):
    return sorted(f for f, d in file_depths(case).items() if d >= 2)


@dmut()
def deep_schema_invalid(rng, case):
    fid = rng.choice(deep_files(case))
    f = case["files"][fid]
    names = [n for n in sorted(M.MUTATORS) if n not in M.THREAD_ONLY and n not in M.FORCE_ID_SPELLING and not n.startswith("p_")]
    for _ in range(30):
        name = rng.choice(names)
        s2 = copy.deepcopy(f["schema"])
        b2 = copy.copy(f["builder"])
        b2.s = s2
        try:
            desc = M.MUTATORS[name][1](rng, s2, b2)
        except Exception:
            desc = None
        if desc:
            f["schema"] = s2
            return "a schema imported at depth %d is itself invalid (%s)" % (file_depths(case)[fid], desc)
    return None


@dmut()
def deep_file_unreadable(rng, case):
    fid = rng.choice(deep_files(case))
    case["files"][fid]["write"] = False
    case["files"][fid]["unreadable"] = True
    return "a file imported at depth %d cannot be read" % file_depths(case)[fid]


@dmut()
def nested_connection_target_missing(rng, case):
    pf, e = rng.choice(nested_entries(case))
    add = used_cp(rng, owner(case, pf))
    e["conns"].append({"to": (rng.choice(["action", "checkpoint"]), STITCH_FROM + rng.randrange(50)), "add": add, "render_to": None})
    e["force"] = None
    return "a connection of a nested import entry targets nothing in the imported schema"


@dmut()
def nested_connection_target_elsewhere(rng, case):
    """the to_ref of a nested entry names an entity of another loaded file, or of the importer itself"""
    pf, e = rng.choice(nested_entries(case))
    others = [f for f in sorted(case["files"]) if f != e["fid"] and f != pf]
    choice = rng.random()
    if choice < 0.3 or not others:
        tgt = rng.choice(targets_of(owner(case, pf)))
        rt = (None, tgt[0], tgt[1])
        what = "the importing schema itself"
    else:
        # prefer a file the imported file imports (a transitively imported entity), else any other loaded file
        below = [f for f in reachable(case, e["fid"])]
        o = rng.choice(below) if below and rng.random() < 0.6 else rng.choice(others)
        tg = targets_of(case["files"][o])
        if not tg:
            return None
        tgt = rng.choice(tg)
        rt = (o, tgt[0], tgt[1])
        what = "another imported file"
    add = used_cp(rng, owner(case, pf))
    e["conns"].append({"to": (tgt[0], STITCH_FROM + 50), "add": add, "render_to": rt})
    e["force"] = None
    return "a connection of a nested import entry targets an entity of %s" % what


@dmut()
def native_connection_target_transitive(rng, case):
    """a native entry for M whose to_ref names an entity of a file that only M imports"""
    cands = [e for e in case["entries"] if reachable(case, e["fid"])]
    if not cands:
        return None
    e = rng.choice(cands)
    o = rng.choice(reachable(case, e["fid"]))
    tg = targets_of(case["files"][o])
    if not tg:
        return None
    tgt = rng.choice(tg)
    add = used_cp(rng, owner(case, 0))
    e["conns"].append({"to": (tgt[0], STITCH_FROM + 50), "add": add, "render_to": (o, tgt[0], tgt[1])})
    e["force"] = None
    return "a connection of a native import entry targets an entity of a transitively imported file"


@dmut()
def nested_add_dependency_not_importers_checkpoint(rng, case):
    pf, e = rng.choice(nested_entries(case))
    rec, fx = owner(case, pf), case["files"][e["fid"]]
    tg = targets_of(fx, e)
    if not tg:
        return None
    tgt = rng.choice(tg)
    own = set(c["id"] for c in rec["schema"]["checkpoints"])
    choice = rng.random()
    if choice < 0.25:
        add, what = ("checkpoint", STITCH_FROM + rng.randrange(50)), "no checkpoint at all"
    elif choice < 0.5 and fx["schema"]["checkpoints"]:
        add, what = ("checkpoint", fx["abs"] - rec["abs"] + rng.choice(fx["schema"]["checkpoints"])["id"]), "a checkpoint of the imported schema"
    elif choice < 0.7:
        add, what = ("action", rng.choice(rec["schema"]["actions"])["id"]), "an action"
    else:
        # a checkpoint that exists in the schema importing the importer (e.g. the native one) but not in the importer
        ups = [q for q, e2 in all_entries(case) if e2["fid"] == pf]
        # (ids above the importer's largest checkpoint id included: the validator numbers the checkpoints it generates
        #  for stitched connections from there, and a reference written in the document must not resolve to one of them)
        cands = [c["id"] for q in ups for c in owner(case, q)["schema"]["checkpoints"] if c["id"] not in own and c["ctx"] is None]
        if not cands:
            return None
        add, what = ("checkpoint", rng.choice(cands)), "a checkpoint of the schema that imports the importer"
    e["conns"].append({"to": tgt, "add": add, "render_to": None})
    e["force"] = None
    return "the add_dependency of a nested connection is %s, not a checkpoint of its importer" % what


@dmut()
def nested_duplicate_connection_target(rng, case):
    pf, e = rng.choice(nested_entries(case))
    rec, fx = owner(case, pf), case["files"][e["fid"]]
    if not e["conns"]:
        tg = targets_of(fx, e)
        if not tg:
            return None
        e["conns"].append({"to": rng.choice(tg), "add": fresh_cp(rng, rec), "render_to": None})
    tgt = rng.choice(e["conns"])["to"]
    e["conns"].append({"to": tgt, "add": fresh_cp(rng, rec), "render_to": None})
    if e["force"]:
        e["force"] = None      # (its twin entry no longer has the same text)
    return "two connections of a nested import entry target the same object"


@dmut()
def cycle_inside_nested_import(rng, case):
    """an action a of importer P (not the native schema) depends on F.x; P's connection makes x depend on a"""
    cands = [(pf, e, a, x) for pf, e in nested_entries(case) for (a, fx, x) in owner(case, pf)["dependents"] if fx == e["fid"]
             and not any(c["to"] == ("action", x) for c in e["conns"])]
    if not cands:
        return None
    pf, e, a, x = rng.choice(cands)
    e["conns"].append({"to": ("action", x), "add": fresh_cp(rng, owner(case, pf), on=a), "render_to": None})
    e["force"] = None
    return "dependency cycle between an imported schema and what it imports, closed through its own connection"


@dmut()
def cycle_through_nested_connection(rng, case):
    """native n depends on F.x (F imported by P, P imported natively); P's connection makes x depend on P.a; the native
    connection onto P.a makes a depend on n: every file is valid in isolation, the cycle exists only in the root"""
    cands = []
    for pf, e in nested_entries(case):
        root_e = next((r for r in case["entries"] if r["fid"] == pf), None)
        if root_e is None:
            continue
        for (n, fx, x) in case["dependents"]:
            if fx == e["fid"] and not any(c["to"] == ("action", x) for c in e["conns"]):
                cands.append((pf, e, root_e, n, x))
    if not cands:
        return None
    pf, e, root_e, n, x = rng.choice(cands)
    rec = owner(case, pf)
    free = [a for a in clean_actions(rec) if not any(c["to"] == ("action", a) for c in root_e["conns"])]
    if not free:
        return None
    a = rng.choice(free)
    e["conns"].append({"to": ("action", x), "add": fresh_cp(rng, rec, on=a), "render_to": None})
    root_e["conns"].append({"to": ("action", a), "add": fresh_cp(rng, owner(case, 0), on=n), "render_to": None})
    e["force"] = root_e["force"] = None
    return "dependency cycle native -> depth-2 action -> (nested connection) -> depth-1 action -> (native connection) -> native"


@dmut(shape="diamond", same_text=False)
def identical_entries_cycle(rng, case):
    """file F is imported by the native schema and by P with textually identical entries (same target, same
    add_dependency text naming different checkpoints); the entry that is stitched SECOND closes a cycle"""
    pairs = {}
    for pf, e in all_entries(case):
        pairs.setdefault(e["fid"], []).append((pf, e))
    cands = [(fx, l) for fx, l in pairs.items() if len(l) == 2 and sorted(p for p, _ in l)[0] == 0]
    if not cands:
        return None
    fx, l = rng.choice(cands)
    (p1, e1), (p2, e2) = l                       # in stitching order
    pf, e_nested = (p1, e1) if p1 else (p2, e2)
    e_root = e2 if p1 else e1
    second_is_root = bool(p1)
    root, rec = owner(case, 0), owner(case, pf)
    deps = [(n, x) for (n, f, x) in case["dependents"] if f == fx]
    if not deps or not clean_actions(rec) or not clean_actions(root):
        return None
    n, x = rng.choice(deps)
    drop_conns(case, 0, e_root)
    drop_conns(case, pf, e_nested)
    cid = max(_next_id(root["schema"], "checkpoints"), _next_id(rec["schema"], "checkpoints"))
    if second_is_root:
        # root's entry closes: n -> F.x -> root.cp(n)
        e_nested["conns"] = [{"to": ("action", x), "add": fresh_cp(rng, rec, cid=cid), "render_to": None}]
        e_root["conns"] = [{"to": ("action", x), "add": fresh_cp(rng, root, on=n, cid=cid), "render_to": None}]
    else:
        # nested entry closes: n -> F.x -> P.cp(a) -> a -> (native connection onto P.a) root.cp'(n) -> n
        root_p = next((r for r in case["entries"] if r["fid"] == pf), None)
        if root_p is None:
            return None
        free = [a for a in clean_actions(rec) if not any(c["to"] == ("action", a) for c in root_p["conns"])]
        if not free:
            return None
        a = rng.choice(free)
        e_root["conns"] = [{"to": ("action", x), "add": fresh_cp(rng, root, cid=cid), "render_to": None}]
        e_nested["conns"] = [{"to": ("action", x), "add": fresh_cp(rng, rec, on=a, cid=cid), "render_to": None}]
        root_p["conns"].append({"to": ("action", a), "add": fresh_cp(rng, root, on=n), "render_to": None})
        root_p["force"] = None
    e_nested["force"] = e_root["force"] = rng.choice(["id", "alias"])
    if rng.random() < 0.6:
        # both added checkpoints are also held by an action of their own schema: an entry that is not stitched then
        # leaves no never-referenced checkpoint behind, only the missing dependency
        hold_cp(rng, root, ("checkpoint", cid))
        hold_cp(rng, rec, ("checkpoint", cid))
    return "two textually identical entries for one file; the %s one, stitched second, closes a dependency cycle" % ("native" if second_is_root else "nested")


@dmut(threads="nested")
def scope_violation_through_nested_connection(rng, case):
    cands = [(pf, e) for pf, e in nested_entries(case) if any(c["ctx"] is not None for c in owner(case, pf)["schema"]["checkpoints"])]
    if not cands:
        return None
    pf, e = rng.choice(cands)
    tg = targets_of(case["files"][e["fid"]], e)
    if not tg:
        return None
    cp = rng.choice([c for c in owner(case, pf)["schema"]["checkpoints"] if c["ctx"] is not None])
    e["conns"].append({"to": rng.choice(tg), "add": ("checkpoint", cp["id"]), "render_to": None})
    e["force"] = None
    return "a nested connection adds a checkpoint bound to a thread group of its importer"


def mutate_deep(rng, only=None):
    names = sorted(DMUT) if not only else [n for n in sorted(DMUT) if n in only]
    for _ in range(30):
        name = rng.choice(names)
        hints = dict(HINTS[name])
        for _ in range(40):
            kw = dict(hints)
            kw.setdefault("threads", rng.random() < 0.3)
            case = gen_valid_deep(rng, **kw)
            desc = DMUT[name](rng, case)
            if desc:
                return case, name, desc
    raise RuntimeError("no applicable deep import mutator")


# ----------------------------------------------------------------------------------------------- C02: digraphs across an import tree
def graph_case(n, edges, place, diamond, rng, twin=False, cp_targets=False):
    """Actions 0..n-1, action a lives in place[a] (0 = native, 1 = M, 2 = L; the native schema imports M, M imports L,
    and the native schema imports L as well when `diamond` or when an edge needs it); edge (a, b): a depends on b.
    An edge to an action of the same schema or of a (transitively) imported one is a comparison in a's checkpoint; an
    edge to an action of an importing schema is a connection of that importer's entry: L -> M through the NESTED
    entry of M, M -> native and L -> native through native entries."""
    need_nl = diamond or any(place[a] == 2 and place[b] == 0 for (a, b) in edges)
    ABS = {0: 0, 1: OFF, 2: 2 * OFF}
    tag = [0]

    def cmp_(own, b):
        tag[0] += 1
        act, lit = ("act", ("action", ABS[place[b]] - ABS[own] + b), [1]), ("lit", "SInt", tag[0])
        return ("cmp", act, "EQUALS", lit) if rng.random() < 0.6 else ("cmp", lit, "DOES_NOT_EQUAL", act)      # the literal may be on the left

    def empty():
        return {"parties": [{"id": 0, "name": 200}],
                "otypes": [{"id": 0, "name": 100, "attrs": [{"name": i, "kind": ("F", S.FIELD_TYPES[i])} for i in range(3)]}],
                "promises": [], "actions": [], "checkpoints": [], "groups": []}
    sch = {0: empty(), 1: empty(), 2: empty()}
    # checkpoint ids of the three schemas do not overlap in half of the graphs (a reference that loses its schema
    # qualifier then dangles instead of meeting another schema's checkpoint)
    ncp = {0: 0, 1: 100, 2: 200} if (cp_targets or rng.random() < 0.5) else {0: 0, 1: 0, 2: 0}

    def new_cp(loc, deps):
        ncp[loc] += 1
        sch[loc]["checkpoints"].append({"id": ncp[loc], "alias": 500 + ncp[loc], "gate": (rng.choice(["AND", "OR"]) if len(deps) > 1 else None),
                                        "deps": deps, "ctx": None})
        return ("checkpoint", ncp[loc])

    def add_action(loc, i, dep):
        sch[loc]["promises"].append({"id": i, "name": 300 + i, "type": ("type", 0), "ctx": None})
        sch[loc]["actions"].append({"id": i, "name": 400 + i, "party": ("party", 0), "promise": ("promise", i), "ctx": None, "dep": dep,
                                    "op": {"incl": ("include", [0]), "defaults": [], "edges": [], "appends": None}, "milestones": []})
    conns = {(0, 1): [], (0, 2): [], (1, 2): []}        # (importer, imported) -> connections
    for a in range(n):
        P = place[a]
        down = sorted(set(b for (x, b) in edges if x == a and place[b] >= P))
        up = sorted(set(b for (x, b) in edges if x == a and place[b] < P))
        own_cp = new_cp(P, [cmp_(P, b) for b in down]) if down else None
        add_action(P, a, own_cp)
        for Q in sorted(set(place[b] for b in up)):
            # the connection goes onto the action, or -- when the action has a checkpoint of its own -- onto that
            # checkpoint (a connection onto an imported checkpoint: its holders get the added dependency)
            to = own_cp if (own_cp is not None and (cp_targets or rng.random() < 0.5)) else ("action", a)
            conns[(Q, P)].append({"to": to, "add": new_cp(Q, [cmp_(Q, b) for b in up if place[b] == Q]), "render_to": None})
    for loc in (0, 1, 2):
        if not sch[loc]["actions"]:
            add_action(loc, 99, None)
    mk = lambda fid, entries: {"abs": ABS[fid], "schema": sch[fid], "builder": None, "entries": entries, "file": None, "write": True,
                               "unreadable": False, "tainted": set(), "dependents": []}
    files = {1: mk(1, [{"fid": 2, "conns": conns[(1, 2)], "force": None}]), 2: mk(2, [])}
    entries = [{"fid": 1, "conns": conns[(0, 1)], "force": None}]
    if need_nl:
        entries.insert(rng.choice([0, 1]), {"fid": 2, "conns": conns[(0, 2)], "force": None})
    if twin and len(conns[(0, 2)]) == 1 and len(conns[(1, 2)]) == 1 and conns[(0, 2)][0]["to"] == conns[(1, 2)][0]["to"]:
        # the native entry for L and M's entry for L get the same text: the added checkpoints (different ones, each
        # in its importer) are renumbered to one id and everything in the two entries is spelled the same way
        for loc in (0, 1):
            c = conns[(loc, 2)][0]
            cp = next(x for x in sch[loc]["checkpoints"] if x["id"] == c["add"][1])
            cp["id"], cp["alias"] = 50, 550
            c["add"] = ("checkpoint", 50)
        if rng.random() < 0.6:
            # the added checkpoints are also held by an extra action of their schema (nobody depends on it): an entry
            # that is not stitched then leaves no unreferenced checkpoint behind, only a missing dependency
            for loc in (0, 1):
                add_action(loc, 98, ("checkpoint", 50))
        force = rng.choice(["id", "alias"])
        files[1]["entries"][0]["force"] = force
        next(e for e in entries if e["fid"] == 2)["force"] = force
    return {"native": sch[0], "builder": None, "tainted": set(), "dependents": [], "entries": entries, "files": files,
            "shape": "diamond" if need_nl else "chain2"}


def _has_cycle(n, edges):
    reach = {a: set(b for (x, b) in edges if x == a) for a in range(n)}
    for _ in range(n):
        for a in range(n):
            for b in list(reach[a]):
                reach[a] |= reach[b]
    return any(a in reach[a] for a in range(n))


def c02_nested_cycle_family(ctx):
    """C02 across import depth 2: every digraph over 2 actions and sampled digraphs over 3 actions, the actions spread
    over the native schema, an imported schema M and a schema L that M imports (at least one action in M and one in L),
    with at least one edge L -> M, i.e. through a connection of the NESTED import entry; whole validator vs
    Model/ImportsDeep.v, and directly: accepted iff the digraph is acyclic."""
    import itertools, collections
    import engine
    rng = random.Random(ctx.seed * 1000003 + 2)
    quick = ctx.tier == "quick"
    graphs = []
    for n in (2, 3):
        pairs = [(a, b) for a in range(n) for b in range(n)]
        places = [p for p in itertools.product((0, 1, 2), repeat=n) if 1 in p and 2 in p]
        for place in places:
            nested = [(a, b) for (a, b) in pairs if place[a] == 2 and place[b] == 1]
            for mask in range(1 << len(pairs)):
                edges = [pairs[k] for k in range(len(pairs)) if mask >> k & 1]
                if any(e in nested for e in edges):
                    graphs.append((n, edges, place))
    small = [g for g in graphs if g[0] == 2]
    rest = [g for g in graphs if g[0] == 3]
    # three strata over 3 actions: acyclic / the cycle needs an edge through the nested connection / other cyclic graphs
    def only_nested(g):
        n, edges, place = g
        return _has_cycle(n, edges) and not _has_cycle(n, [(a, b) for (a, b) in edges if not (place[a] == 2 and place[b] == 1)])
    acyclic = [g for g in rest if not _has_cycle(g[0], g[1])]
    closing = [g for g in rest if only_nested(g)]
    other = [g for g in rest if _has_cycle(g[0], g[1]) and not only_nested(g)]
    k = 1 if quick else 12
    graphs = small + rng.sample(acyclic, min(len(acyclic), 40 * k)) + rng.sample(closing, min(len(closing), 50 * k)) + rng.sample(other, min(len(other), 12 * k))
    # one action in each schema, L's action connected from the native schema AND from M by textually identical entries
    pairs = [(a, b) for a in range(3) for b in range(3)]
    base = [(2, 1), (2, 0)]
    free = [e for e in pairs if e not in base]
    twins = [(3, base + [free[j] for j in range(len(free)) if mask >> j & 1], (0, 1, 2)) for mask in range(1 << len(free))
             if bin(mask).count("1") <= (2 if quick else 4)]
    n_plain = len(graphs)
    graphs = graphs + twins
    # graphs in which an action of L has a checkpoint of its own (it depends on another action of L) AND an edge to M:
    # the nested connection goes onto that CHECKPOINT; half of them need the edge to close their cycle
    def cp_shape(g):
        n_, edges_, place_ = g
        return any(place_[a] == 2 and any(x == a and place_[b] == 2 for (x, b) in edges_) and any(x == a and place_[b] == 1 for (x, b) in edges_) for a in range(n_))
    cpg = [g for g in closing if cp_shape(g)]
    cpa = [g for g in acyclic if cp_shape(g)]
    onto_cp = rng.sample(cpg, min(len(cpg), 25 * k)) + rng.sample(cpa, min(len(cpa), 10 * k))
    # ... and the four-action shape in which such a cycle closes only in the ROOT: native 0 -> L.2 (native reference),
    # L.2 -> L.3 (own checkpoint of L.2), L.2 -> M.1 (nested connection onto that checkpoint), M.1 -> native 0 (native
    # connection); M with L alone is acyclic
    four = []
    for extra in ([], [(3, 1)], [(0, 3)], [(1, 3)]):
        four.append((4, [(2, 3), (2, 1), (1, 0), (0, 2)] + extra, (0, 1, 2, 2)))
        four.append((4, [(2, 3), (2, 1), (1, 0)] + extra, (0, 1, 2, 2)))
    onto_cp = onto_cp + four * (1 if quick else 3)
    n_cp_from = len(graphs)
    graphs = graphs + onto_cp
    items = []
    for gi, (n, edges, place) in enumerate(graphs):
        case = graph_case(n, edges, place, rng.random() < 0.4, rng, twin=(n_plain <= gi < n_cp_from), cp_targets=(gi >= n_cp_from))
        r = {"spelling": "mixed", "shuffle": rng.random() < 0.5, "seed": rng.randrange(1 << 30)}
        doc = render_deep(case, ctx.repo_copy, random.Random(r["seed"]), r["spelling"], r["shuffle"])
        r["imported_files"] = {f["file"]: json.load(open(os.path.join(ctx.repo_copy, "schemas", f["file"] + ".json"))) for f in case["files"].values()}
        it = engine.Item(case, doc, "deep_graph", mutator="n=%d place=%s edges=%s" % (n, list(place), edges), owner="C02",
                         desc="digraph across native / M / L, cyclic=%s" % _has_cycle(n, edges), render=r, group="dg%d" % len(items))
        items.append(it)
    grouped = getattr(engine, "run_items_grouped", None)
    if grouped is not None:
        evaluated = grouped(ctx, items, coq_file_fn=coq_cases_file_deep, chunk=12)
    else:
        saved = engine.CHUNK
        engine.CHUNK = 12
        try:
            evaluated = engine.run_items(ctx, items, coq_file_fn=coq_cases_file_deep)
        finally:
            engine.CHUNK = saved
    count = collections.Counter()
    direct = 0
    for it, (n, edges, place) in zip(items, graphs):
        it.scenario = strip(it.scenario)
        cyc = _has_cycle(n, edges)
        acc = it.res["outcome"] == "accept"
        count["%s/%s" % ("cyclic" if cyc else "acyclic", it.res["outcome"])] += 1
        if cyc == acc and direct < 3:
            direct += 1
            ctx.violation({"what": ("a dependency cycle that runs through a connection of a nested import entry is accepted" if acc else
                                    "an acyclic dependency graph spread over an import tree is not accepted"),
                           "graph": {"actions": n, "edges (a depends on b)": edges, "place (0 native, 1 M, 2 L imported by M)": list(place)},
                           "implementation": it.res, "model_accepts": it.model_accepts, "document": it.doc,
                           "imported_files": it.render["imported_files"], "scenario": it.scenario})
    engine.report(ctx, items, "T3 correspondence: digraphs spread over an import tree of depth 2 (closing edge through a nested connection) vs Coq model (Model/ImportsDeep.v)")
    ctx.coverage["nested_import_digraphs"] = dict(count, graphs=len(items), with_identical_entries=sum(1 for it in items if any(e.get("force") for e in it.scenario["entries"])))
    if not evaluated and not ctx.violations:
        ctx.violation({"what": "Coq evaluation of the nested import digraph cases failed", "notes": ctx.notes[-2:]}, no_input=True)
    return items
