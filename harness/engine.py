"""Scenario engine shared by the validator properties: run implementation and Coq model on the same
abstract scenarios (each rendered to one or more JSON documents) and compare verdicts."""
import os, sys, json, re, hashlib, collections, time
import common, impl, scenario as S, mutators as M

CHUNK = 60


def parse_two_lists(out):
    ms = re.findall(r"=\s*(\[.*?\])\s*:\s*list nat", out, re.S)
    if len(ms) < 2:
        return None, None
    def p(m):
        body = m.strip()[1:-1].strip()
        return [int(x.replace("%nat", "").strip()) for x in body.split(";")] if body else []
    return p(ms[0]), p(ms[1])


def scen_hash(s):
    return hashlib.sha1(json.dumps(s, sort_keys=True, default=str).encode()).hexdigest()[:16]


class Item:
    __slots__ = ("scenario", "doc", "kind", "mutator", "owner", "desc", "render", "res", "model_accepts", "kf", "group")

    def __init__(self, scenario, doc, kind, mutator=None, owner=None, desc=None, render=None, group=None):
        self.scenario, self.doc, self.kind = scenario, doc, kind
        self.mutator, self.owner, self.desc, self.render, self.group = mutator, owner, desc, render, group
        self.res = self.model_accepts = self.kf = None


def run_items(ctx, items, pool=None, coq_file_fn=None):
    """Fills item.res (implementation), item.model_accepts (Coq, model of the current implementation) and
    item.kf (a recorded known finding changes the verdict).  Returns True when every Coq file compiled."""
    own = pool is None
    pool = pool or impl.Pool(ctx)
    res = pool.validate_many([it.doc for it in items])
    if own:
        pool.close()
    for it, r in zip(items, res):
        it.res = r
    files = []
    for k in range(0, len(items), CHUNK):
        part = items[k:k + CHUNK]
        files.append(("cases_%04d" % (k // CHUNK),
                      (coq_file_fn or S.coq_cases_file)([it.scenario for it in part], [it.res["outcome"] == "accept" for it in part])))
    outs = ctx.coq_eval_many(files)
    all_ok = True
    for k, (ok, out) in enumerate(outs):
        part = items[k * CHUNK:(k + 1) * CHUNK]
        fails, kfs = parse_two_lists(out) if ok else (None, None)
        if fails is None:
            all_ok = False
            ctx.notes.append("coq evaluation failed for chunk %d: %s" % (k, out[-600:]))
            continue
        for i, it in enumerate(part):
            acc = it.res["outcome"] == "accept"
            it.model_accepts = (not acc) if i in fails else acc
            it.kf = i in kfs
    return all_ok


def run_items_grouped(ctx, items, coq_file_fn=None, chunk=12):
    """Like run_items for items whose group members are renderings of ONE abstract scenario: the implementation runs
    on every item, the model is evaluated once per group (its verdict does not depend on the rendering)."""
    pool = impl.Pool(ctx)
    res = pool.validate_many([it.doc for it in items])
    pool.close()
    for it, r in zip(items, res):
        it.res = r
    reps = {}
    for it in items:
        reps.setdefault(it.group, it)
    rep_items = list(reps.values())
    files = []
    for k in range(0, len(rep_items), chunk):
        part = rep_items[k:k + chunk]
        files.append(("gcases_%04d" % (k // chunk),
                      (coq_file_fn or S.coq_cases_file)([it.scenario for it in part], [it.res["outcome"] == "accept" for it in part])))
    outs = ctx.coq_eval_many(files)
    all_ok = True
    for k, (ok, out) in enumerate(outs):
        part = rep_items[k * chunk:(k + 1) * chunk]
        fails, kfs = parse_two_lists(out) if ok else (None, None)
        if fails is None:
            all_ok = False
            ctx.notes.append("coq evaluation failed for chunk %d: %s" % (k, out[-600:]))
            continue
        for i, it in enumerate(part):
            acc = it.res["outcome"] == "accept"
            it.model_accepts = (not acc) if i in fails else acc
            it.kf = i in kfs
    for it in items:
        rep = reps[it.group]
        if it is not rep:
            it.model_accepts, it.kf = rep.model_accepts, getattr(rep, "kf", False)
    return all_ok


def make_valid_items(ctx, rng, n, variants=2, threads=False, sizes=None):
    items = []
    import random
    for k in range(n):
        s = S.gen_valid(rng, n_actions=(rng.choice(sizes) if sizes else None), threads=threads)
        g = scen_hash(s)
        for v in range(variants):
            r = {"spelling": ["mixed", "id", "alias", "mixed"][v % 4], "shuffle": v % 2 == 1, "descriptive": (k + v) % 3 == 2,
                 "seed": rng.randrange(1 << 30), "numeric_names": True if (k + v) % 4 == 0 else ("odd" if (k + v) % 4 == 2 else ("own" if (k + v) % 8 == 3 else ("case" if (k + v) % 8 == 7 else False)))}
            doc = S.render(s, random.Random(r["seed"]), r["spelling"], r["shuffle"], r["descriptive"], r["numeric_names"])
            items.append(Item(s, doc, "valid", render=r, group=g))
    return items


def make_mutant_items(ctx, rng, n, owners, threads=False):
    import random
    items = []
    for k in range(n):
        s, name, owner, desc = M.mutate(rng, only=owners, threads=threads)
        r = {"spelling": "id" if name in M.FORCE_ID_SPELLING else "mixed", "shuffle": k % 2 == 1, "descriptive": k % 4 == 3 and name not in M.FORCE_ID_SPELLING,
             "seed": rng.randrange(1 << 30), "numeric_names": (k % 5 == 0 and name not in ("duplicate_id", "duplicate_name")) or ("odd" if k % 5 == 2 else ("own" if k % 10 == 4 and name not in ("duplicate_id", "duplicate_name") else ("case" if k % 10 == 9 and name not in ("duplicate_id", "duplicate_name", "duplicate_attribute") else False)))}
        doc = S.render(s, random.Random(r["seed"]), r["spelling"], r["shuffle"], r["descriptive"], r["numeric_names"])
        items.append(Item(s, doc, "mutant", mutator=name, owner=owner, desc=desc, render=r, group=scen_hash(s)))
    return items


def report(ctx, items, what):
    """Turn disagreements into violations; fill coverage numbers."""
    dis = [it for it in items if it.model_accepts is not None and (it.res["outcome"] == "accept") != it.model_accepts]
    unevaluated = [it for it in items if it.model_accepts is None]
    seen = set()
    for it in dis:
        key = (it.kind, it.mutator, it.res["outcome"], (it.res["errors"] or [""])[0][:60])
        if key in seen:
            continue
        seen.add(key)
        if len(seen) > 4:
            break
        ctx.violation({
            "what": what,
            "kind": it.kind, "mutator": it.mutator, "fault": it.desc, "owner": it.owner,
            "implementation": it.res, "model_accepts": it.model_accepts,
            "explanation": ("the implementation accepts a scenario the model rejects" if it.res["outcome"] == "accept"
                            else "the implementation does not accept a scenario the model accepts"),
            "render": it.render, "scenario": it.scenario, "document": it.doc,
        })
    # every document was also validated on an instance that the worker reuses for all its documents
    reused = [it for it in items if it.res.get("reused")]
    for it in reused[:2]:
        ctx.violation({"what": "the result of validating a document depends on what the same SchemaValidator instance validated before",
                       "kind": it.kind, "mutator": it.mutator, "fault": it.desc, "difference": {k: v for k, v in it.res["reused"].items() if k != "previous_document"},
                       "history": [it.res["reused"].get("previous_document", "(longer history of this worker; not reproduced by the previous document alone)"), it.doc],
                       "render": it.render, "document": it.doc}, no_input="previous_document" not in it.res["reused"])
    cov = ctx.coverage
    cov["reused_instance_divergences"] = cov.get("reused_instance_divergences", 0) + len(reused)
    cov["evaluations"] = cov.get("evaluations", 0) + len(items)
    groups = set(it.group for it in items)
    cov["distinct_nontrivial"] = cov.get("distinct_nontrivial", 0) + len(groups)
    cov["disagreements_checked"] = cov.get("disagreements_checked", 0) + len(dis)
    dist = cov.setdefault("distribution", {})
    c = collections.Counter()
    for it in items:
        c["%s/%s/%s" % (it.kind, it.mutator or "-", it.res["outcome"])] += 1
    for k, v in c.items():
        dist[k] = dist.get(k, 0) + v
    dist["known_finding_class_hits"] = dist.get("known_finding_class_hits", 0) + sum(1 for it in items if it.kf)
    if unevaluated:
        ctx.notes.append("%d items could not be evaluated in Coq" % len(unevaluated))
    return dis, unevaluated


def import_family(ctx, rng, n_valid, n_mut=0, only=None, what="T3 correspondence: whole validator with generated import files vs Coq model (Model/Imports.v)"):
    """Importing scenarios (references, comparisons and connections across generated import files) and, optionally,
    single import faults: run, compared with Model/Imports.v and reported under the calling property."""
    import random
    import imports as I
    items = []
    for k in range(n_valid + n_mut):
        if k < n_valid:
            case, name, desc = I.gen_valid_i(rng, threads=(k % 3 == 0)), None, None
        else:
            case, name, desc = I.mutate_i(rng, only=only)
        r = {"spelling": "mixed", "shuffle": k % 2 == 1, "seed": rng.randrange(1 << 30)}
        doc = I.render_i(case, ctx.repo_copy, random.Random(r["seed"]), r["spelling"], r["shuffle"], False)
        items.append(Item(case, doc, "valid-imports" if name is None else "mutant-imports", mutator=name, owner=ctx.prop, desc=desc, render=r, group="imp%d" % k))
    ok = run_items_grouped(ctx, items, coq_file_fn=I.coq_cases_file_i, chunk=8)
    for it in items:
        it.scenario = {"native": it.scenario["native"], "imports": [{kk: vv for kk, vv in imp.items() if kk != "builder"} for imp in it.scenario["imports"]]}
    report(ctx, items, what)
    return ok


def import_tree_family(ctx, rng, n, shapes=None, reversed_too=False,
                       what="T3 correspondence: whole validator on import trees (files that import files) vs Coq model (Model/ImportsDeep.v)", do_report=True):
    """Conformant import TREES (generated files that import generated files; diamonds: one file reached by two import
    entries, each with its own connections), optionally each also with the root's `imports` array reversed; compared
    with Model/ImportsDeep.v and reported under the calling property.  -> (evaluated, items)"""
    import random, os
    import imports_deep as D
    items = []
    for k in range(n):
        case = D.gen_valid_deep(rng, threads=(k % 4 == 3), shape=(shapes[k % len(shapes)] if shapes else None))
        for f in case["files"].values():
            f["file"] = None
        seed = rng.randrange(1 << 30)
        sp = ["id", "mixed", "alias"][k % 3]
        for v in range(2 if reversed_too else 1):
            r = {"spelling": sp, "shuffle": False, "seed": seed, "root_imports": "as generated" if v == 0 else "reversed"}
            doc = D.render_deep(case, ctx.repo_copy, random.Random(seed), sp, False)
            if v == 1:
                doc["imports"] = doc["imports"][::-1]
            r["imported_files"] = {}
            for f in case["files"].values():
                try:
                    r["imported_files"][f["file"]] = json.load(open(os.path.join(ctx.repo_copy, "schemas", f["file"] + ".json")))
                except Exception:
                    r["imported_files"][f["file"]] = None
            items.append(Item(case, doc, "valid-import-tree", owner=ctx.prop, render=r, group="tree%d" % k))
    ok = run_items_grouped(ctx, items, coq_file_fn=D.coq_cases_file_deep, chunk=6)
    for it in items:
        it.scenario = D.strip(it.scenario)
    if do_report:
        report(ctx, items, what)
    return ok, items


def sample_of(items, k=3):
    out = []
    for it in items[:k]:
        out.append({"kind": it.kind, "mutator": it.mutator, "fault": it.desc, "render": it.render,
                    "implementation": it.res["outcome"], "model_accepts": it.model_accepts,
                    "document_excerpt": json.dumps(it.doc)[:600]})
    return out
