"""Shared machinery of the checks: snapshot of /repo's working tree, regeneration of Gen/*.v, Coq build,
in-Coq evaluation of generated case files, evidence, violations, known findings."""
import os, sys, json, time, subprocess, shutil, hashlib, fcntl, random, re, atexit, tempfile, traceback

VERIF = os.path.abspath(os.path.join(os.path.dirname(__file__), ".."))
REPO = os.environ.get("VERIF_REPO") or "/repo"      # an empty value means unset (never the file system root)
COQ = os.path.join(VERIF, "coq")
PY = "/venv/bin/python"
GUARD = "NATUREBLOCKS_OPEN_IMPACT_STANDARDS_VERIF"
NCPU = min(16, os.cpu_count() or 4)

TRUSTED_BASE_COMMON = [
    "Coq 8.16.1 kernel (coqc); vm_compute used for reflection over finite tables and generated case files; native_compute not used",
    "no Axiom/Parameter/Admitted in the development (grep enforced by bin/check); Print Assumptions output recorded per theorem",
    "tools/gen_*.py (T1/T2 generators): import the repository's own modules and tabulate/dump them; fail closed",
    "harness (Python): scenario generator, renderer scenario->JSON, runner of the implementation, comparison of verdicts",
    "CPython semantics of the parts of the implementation that are modelled by hand (see DESIGN.md section 4)",
]


class Ctx:
    def __init__(self, prop, tier, seed):
        self.prop, self.tier, self.seed = prop, tier, seed
        self.t0 = time.time()
        self.rng = random.Random(seed)
        self.work = tempfile.mkdtemp(prefix="ois-verif-%s-" % prop, dir=os.environ.get("VERIF_TMP", "/var/tmp"))
        atexit.register(shutil.rmtree, self.work, True)
        self.repo_copy = os.path.join(self.work, "repo")
        self.coq_scratch = os.path.join(self.work, "coq")
        os.makedirs(self.coq_scratch)
        self.violations = []      # list of dict(replay=path, note=str)
        self.known = []           # KNOWN-FINDING lines printed
        self.coverage = {}
        self.assumptions = []
        self.notes = []

    # ---------------------------------------------------------------- snapshot
    def snapshot(self):
        subprocess.run(["rsync", "-a", "--delete", "--exclude", ".git", "--exclude", "__pycache__",
                        "--exclude", ".pytest_cache", REPO + "/", self.repo_copy + "/"], check=True)
        return self.repo_copy

    def impl_env(self):
        env = dict(os.environ)
        env["PYTHONPATH"] = self.repo_copy
        env["PYTHONHASHSEED"] = "0"
        env["PYTHONDONTWRITEBYTECODE"] = "1"
        env[GUARD] = "1"
        env["PYTHONWARNINGS"] = "ignore"
        return env

    # ---------------------------------------------------------------- Coq
    def coq_lock(self):
        f = open(os.path.join(COQ, ".lock"), "w")
        fcntl.flock(f, fcntl.LOCK_EX)
        return f

    def regen(self, which=("tables", "specs", "state", "consts")):
        """Regenerate Gen/*.v from the snapshot. Returns (ok, message)."""
        msgs = []
        for w in which:
            tool = os.path.join(VERIF, "tools", "gen_%s.py" % w)
            if not os.path.exists(tool):
                continue
            out = os.path.join(COQ, "theories", "Gen", w.capitalize() + ".v")
            r = subprocess.run([PY, "-W", "ignore", tool, self.repo_copy, out], capture_output=True, text=True,
                               env=self.impl_env(), timeout=300)
            msgs.append(r.stdout.strip() + r.stderr.strip()[-2000:])
            if r.returncode != 0:
                return False, "generator %s failed: %s" % (w, (r.stderr or r.stdout)[-2000:])
        return True, "; ".join(msgs)

    def make(self, targets=(), timeout=1500):
        """Full .vo build of the given targets (default: everything). Returns (ok, log)."""
        ensure_makefile()
        cmd = ["timeout", str(timeout), "make", "-C", COQ, "-j%d" % NCPU] + list(targets)
        r = subprocess.run(cmd, capture_output=True, text=True)
        return r.returncode == 0, (r.stdout + r.stderr)

    def property_file(self):
        return os.path.join(COQ, "theories", "Properties", self.prop + ".v")

    def check_property_file(self):
        """Compile Properties/<prop>.v (after its dependencies are built), collecting theorem names and
        Print Assumptions output. Returns (ok, theorems, log)."""
        pf = self.property_file()
        src = open(pf).read()
        theorems = re.findall(r"^\s*(?:Theorem|Corollary)\s+(\w+)", src, re.M)
        ok, log = self.make(["theories/Properties/%s.vo" % self.prop])
        if not ok:
            return False, theorems, log
        # re-run coqc on the property file alone to capture Print Assumptions (make is silent when up to date)
        scratch_pf = os.path.join(self.coq_scratch, os.path.basename(pf))
        shutil.copy(pf, scratch_pf)
        r = subprocess.run(["timeout", "600", "coqc", "-Q", os.path.join(COQ, "theories"), "OIS",
                            "-w", "-notation-overridden", scratch_pf],
                           capture_output=True, text=True, cwd=self.coq_scratch)
        out = r.stdout + r.stderr
        if r.returncode != 0:
            return False, theorems, out
        blocks = [b.strip() for b in re.split(r"(?=Closed under the global context|Axioms:)", out) if b.strip()]
        self.assumptions = blocks
        return True, theorems, out

    def coq_eval(self, name, body, timeout=900):
        """Compile a scratch file that imports the built theories; returns (ok, stdout+stderr)."""
        path = os.path.join(self.coq_scratch, name + ".v")
        open(path, "w").write(body)
        r = subprocess.run(["timeout", str(timeout), "coqc", "-Q", os.path.join(COQ, "theories"), "OIS",
                            "-w", "-notation-overridden", path], capture_output=True, text=True, cwd=self.coq_scratch)
        return r.returncode == 0, r.stdout + r.stderr

    def coq_eval_many(self, files, timeout=900):
        """files: list of (name, body). Compiled in parallel. Returns list of (ok, output)."""
        from concurrent.futures import ThreadPoolExecutor
        with ThreadPoolExecutor(max_workers=NCPU) as ex:
            return list(ex.map(lambda nb: self.coq_eval(nb[0], nb[1], timeout), files))

    # ---------------------------------------------------------------- reporting
    def replay_path(self, tag):
        d = os.path.join(VERIF, "replays")
        os.makedirs(d, exist_ok=True)
        return os.path.join(d, "%s-%s.json" % (self.prop, tag))

    def violation(self, payload, no_input=False, tag=None):
        payload = dict(payload)
        payload.setdefault("property", self.prop)
        payload.setdefault("seed", self.seed)
        payload.setdefault("tier", self.tier)
        payload["replay_cmd"] = "cd /verif && ./bin/check %s --replay <this file>" % self.prop
        blob = json.dumps(payload, sort_keys=True, default=str)
        tag = tag or hashlib.sha1(blob.encode()).hexdigest()[:12]
        if no_input:
            tag = "obligation-" + tag
        path = self.replay_path(tag)
        open(path, "w").write(json.dumps(payload, indent=1, default=str))
        self.violations.append({"replay": path, "no_input": no_input})
        print("VIOLATION property=%s replay=%s%s" % (self.prop, path, " no-failing-input-found" if no_input else ""), flush=True)

    def known_finding(self, what):
        line = "KNOWN-FINDING: property=%s %s" % (self.prop, what)
        self.known.append(line)
        print(line, flush=True)

    def write_evidence(self, level="proof", extra_assumptions=()):
        cov = dict(self.coverage)
        cov.setdefault("trusted_base", [])
        cov["trusted_base"] = TRUSTED_BASE_COMMON + list(cov["trusted_base"]) + \
            ["Print Assumptions: " + a.replace("\n", " ")[:400] for a in self.assumptions]
        if cov.get("discharged", 1) == 0:
            # the schema wants discharged >= 1 for a proof-level record; a broken proof is recorded separately
            cov["discharged_now"] = 0
            del cov["discharged"]
            cov.setdefault("evaluations", 1)
            cov.setdefault("distinct_nontrivial", 2)
        cov["known_findings_reported"] = self.known
        cov["notes"] = self.notes
        ev = {
            "property_id": self.prop, "tier": self.tier, "seed": self.seed, "level": level,
            "coverage": cov,
            "assumptions": list(extra_assumptions),
            "wall_s": round(time.time() - self.t0, 2),
            "violations": len(self.violations),
        }
        os.makedirs(os.path.join(VERIF, "evidence"), exist_ok=True)
        with open(os.path.join(VERIF, "evidence", self.prop + ".json"), "w") as f:
            json.dump(ev, f, indent=1, default=str)


def ensure_makefile():
    mk = os.path.join(COQ, "Makefile")
    vfiles = sorted(os.path.relpath(os.path.join(d, f), COQ)
                    for d, _, fs in os.walk(os.path.join(COQ, "theories")) for f in fs if f.endswith(".v"))
    header = ["-Q theories OIS",
              "-arg -w -arg -notation-overridden,-deprecated-hint-without-locality,-deprecated-instance-without-locality"]
    want = "\n".join(header + vfiles) + "\n"
    cp = os.path.join(COQ, "_CoqProject")
    have = open(cp).read() if os.path.exists(cp) else ""
    if have != want or not os.path.exists(mk):
        open(cp, "w").write(want)
        subprocess.run(["coq_makefile", "-f", "_CoqProject", "-o", "Makefile"], cwd=COQ, check=True,
                       capture_output=True)


FORBIDDEN = re.compile(r"\b(Admitted|admit|Axiom|Parameter|Conjecture|bypass_check)\b|Unset\s+Guard|type-in-type|impredicative-set")


def grep_forbidden():
    """The development must not declare axioms or leave holes. Returns list of offending 'file:line: text'."""
    bad = []
    for d, _, fs in os.walk(os.path.join(COQ, "theories")):
        for f in fs:
            if not f.endswith(".v"):
                continue
            p = os.path.join(d, f)
            for i, line in enumerate(open(p), 1):
                code = re.sub(r"\(\*.*?\*\)", "", line)
                if FORBIDDEN.search(code):
                    bad.append("%s:%d: %s" % (os.path.relpath(p, COQ), i, line.strip()))
    return bad


def load_known_findings():
    p = os.path.join(VERIF, "known_findings.json")
    return json.load(open(p)) if os.path.exists(p) else {"findings": [], "fixed": []}


def coq_list(items):
    return "[" + "; ".join(items) + "]"


def parse_coq_nat_list(out):
    """Parse the `= [1; 2; 3] : list nat` printed by Eval vm_compute."""
    m = re.search(r"=\s*(\[.*?\])\s*:\s*list nat", out, re.S)
    if not m:
        return None
    body = m.group(1).strip()[1:-1].strip()
    if not body:
        return []
    return [int(x.replace("%nat", "").strip()) for x in body.split(";")]
