"""Systematic scenario families shared by several checks."""
import random, itertools
import engine, scenario as S


def guaranteed_family(rng):
    """appends_objects_to behind gates: the appender a depends on checkpoint TOP (each of the 5 gate types) with two
    branches; a branch is the fulfiller f compared directly, a nested AND checkpoint that (together with an unrelated
    comparison) nests a SHARED checkpoint Z = [f ...] (diamond when both branches do), an action x that itself
    depends on f, or an unrelated action u.  Fulfilment of the appended-to promise is guaranteed iff every branch of an
    OR gate (some branch of any other gate) leads to f."""
    items = []
    T = lambda: {"id": 0, "name": 100, "attrs": [{"name": 0, "kind": ("F", "STRING")}, {"name": 5, "kind": ("C", ("type", 0))}]}
    op = lambda app=None: {"incl": ("include", [0]), "defaults": [], "edges": [], "appends": app}
    shapes = ["direct", "via_shared", "via_action", "unrelated"]
    for gate, b1, b2 in itertools.product(S.GATES, shapes, shapes):
        s = {"parties": [{"id": 0, "name": 200}], "otypes": [T()], "promises": [], "actions": [], "checkpoints": [], "groups": []}
        tag = [0]
        def cmp_(a):
            tag[0] += 1
            return ("cmp", ("act", ("action", a), [0]), "EQUALS", ("lit", "SStr", tag[0]))
        def act(i, dep=None, o=None):
            s["promises"].append({"id": i, "name": 300 + i, "type": ("type", 0), "ctx": None})
            s["actions"].append({"id": i, "name": 400 + i, "party": ("party", 0), "promise": ("promise", i), "ctx": None, "dep": dep, "op": o or op(), "milestones": []})
        def cp(i, deps, gate=None):
            s["checkpoints"].append({"id": i, "alias": 500 + i, "gate": gate if len(deps) > 1 else None, "deps": deps, "ctx": None})
        act(1)                      # f : fulfils promise 1 (owner of the collection)
        act(2)                      # u : unrelated
        cp(10, [cmp_(1)])           # X's checkpoint and the shared checkpoint Z
        act(3, ("checkpoint", 10))  # x : depends on f
        cp(11, [cmp_(1), cmp_(2)], "AND")   # Z (shared): mentions f
        branches = []
        for k, b in enumerate((b1, b2)):
            if b == "direct":
                branches.append(cmp_(1))
            elif b == "via_action":
                branches.append(cmp_(3))
            elif b == "unrelated":
                branches.append(cmp_(2))
            else:
                cid = 20 + k
                cp(cid, [cmp_(2), ("ref", ("checkpoint", 11))], "AND")
                branches.append(("ref", ("checkpoint", cid)))
        cp(30, branches, gate)
        act(4, ("checkpoint", 30), op(app=(("promise", 1), [5])))
        if "via_shared" not in (b1, b2):
            # Z must be referenced by something
            s["actions"][1]["dep"] = ("checkpoint", 11) if False else s["actions"][1]["dep"]
            s["checkpoints"] = [c for c in s["checkpoints"] if c["id"] != 11]
        if S.has_duplicate_composite(s):
            continue
        r = {"spelling": rng.choice(["id", "alias", "mixed"]), "shuffle": rng.random() < 0.5, "descriptive": False, "seed": rng.randrange(1 << 30)}
        doc = S.render(s, random.Random(r["seed"]), r["spelling"], r["shuffle"], False)
        items.append(engine.Item(s, doc, "guaranteed", mutator="gate=%s branches=%s,%s" % (gate, b1, b2), owner="C07",
                                 desc="guaranteed ancestry through gates", render=r, group="guar|%s|%s|%s" % (gate, b1, b2)))
    return items
