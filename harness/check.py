#!/venv/bin/python
"""bin/check <ID> [--tier quick|thorough] [--replay FILE]"""
import sys, os, argparse, importlib, traceback, json
sys.path.insert(0, os.path.dirname(os.path.abspath(__file__)))
sys.dont_write_bytecode = True
import common


def main():
    ap = argparse.ArgumentParser()
    ap.add_argument("prop")
    ap.add_argument("--tier", default=os.environ.get("VERIF_TIER", "quick"), choices=["quick", "thorough"])
    ap.add_argument("--replay", default=None)
    a = ap.parse_args()
    seed = int(os.environ.get("VERIF_SEED", "20260930") or 20260930)
    # one check at a time per /verif directory: a run regenerates Gen/*.v from the tree it checks and evaluates its case
    # files against the compiled development, so two concurrent runs against different trees would read each other's
    # tables (the lock is released when the process ends)
    import fcntl
    os.makedirs(common.COQ, exist_ok=True)
    runlock = open(os.path.join(common.COQ, ".runlock"), "w")
    fcntl.flock(runlock, fcntl.LOCK_EX)
    ctx = common.Ctx(a.prop, a.tier, seed)
    ctx._runlock = runlock
    ctx.replay_file = a.replay
    mod = importlib.import_module("checks." + a.prop.lower())
    try:
        ctx.snapshot()
        bad = common.grep_forbidden()
        if bad:
            ctx.notes.append("forbidden constructs in development: %s" % bad[:5])
            print("HARNESS-ERROR: forbidden constructs: %s" % bad[:5])
            ctx.coverage.setdefault("obligations", 1)
            ctx.coverage.setdefault("discharged", 0)
            ctx.coverage.setdefault("checker_cmd", "grep")
            ctx.write_evidence(getattr(mod, "LEVEL", "proof"))
            sys.exit(3)
        try:
            mod.run(ctx)
        except SystemExit:
            raise
        except BaseException:
            # the correspondence machinery itself could not run to completion against this tree (the implementation
            # produced something the harness cannot even represent, or stopped answering): the property is no longer
            # shown to hold; no failing input was isolated
            tb = traceback.format_exc()
            sys.stderr.write(tb)
            if not ctx.violations:
                ctx.violation({"what": "the check of %s could not be completed against this tree: its correspondence run failed" % a.prop,
                               "correspondence": "harness/checks/%s.py" % a.prop.lower(), "traceback_tail": tb[-1800:]}, no_input=True)
            ctx.coverage.setdefault("evaluations", 0)
            ctx.coverage.setdefault("rule", "run aborted")
    except SystemExit:
        raise
    except BaseException:
        traceback.print_exc()
        ctx.notes.append("harness error: " + traceback.format_exc()[-1500:])
        ctx.coverage.setdefault("obligations", 1)
        ctx.coverage.setdefault("discharged", 0)
        ctx.coverage.setdefault("checker_cmd", "n/a (harness error)")
        ctx.write_evidence(getattr(mod, "LEVEL", "proof"))
        sys.exit(3)
    ctx.write_evidence(getattr(mod, "LEVEL", "proof"))
    sys.exit(1 if ctx.violations else 0)


if __name__ == "__main__":
    main()
