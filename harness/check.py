#!/venv/bin/python
"""bin/check <ID> [--tier quick|thorough] [--replay FILE]"""
import sys, os, argparse, importlib, traceback, json
sys.path.insert(0, os.path.dirname(os.path.abspath(__file__)))
sys.dont_write_bytecode = True
import common


def main():
    ap = argparse.ArgumentParser()
    ap.add_argument("prop")
    ap.add_argument("--tier", default=os.environ.get("VERIF_TIER", "quick"), choices=["quick", "thorough"])
    ap.add_argument("--replay", default=None)
    a = ap.parse_args()
    seed = int(os.environ.get("VERIF_SEED", "20260930") or 20260930)
    ctx = common.Ctx(a.prop, a.tier, seed)
    ctx.replay_file = a.replay
    mod = importlib.import_module("checks." + a.prop.lower())
    try:
        ctx.snapshot()
        bad = common.grep_forbidden()
        if bad:
            ctx.notes.append("forbidden constructs in development: %s" % bad[:5])
            print("HARNESS-ERROR: forbidden constructs: %s" % bad[:5])
            ctx.coverage.setdefault("obligations", 1)
            ctx.coverage.setdefault("discharged", 0)
            ctx.coverage.setdefault("checker_cmd", "grep")
            ctx.write_evidence(getattr(mod, "LEVEL", "proof"))
            sys.exit(3)
        mod.run(ctx)
    except SystemExit:
        raise
    except BaseException:
        traceback.print_exc()
        ctx.notes.append("harness error: " + traceback.format_exc()[-1500:])
        ctx.coverage.setdefault("obligations", 1)
        ctx.coverage.setdefault("discharged", 0)
        ctx.coverage.setdefault("checker_cmd", "n/a (harness error)")
        ctx.write_evidence(getattr(mod, "LEVEL", "proof"))
        sys.exit(3)
    ctx.write_evidence(getattr(mod, "LEVEL", "proof"))
    sys.exit(1 if ctx.violations else 0)


if __name__ == "__main__":
    main()
